#!/bin/sh
# usage: baseline.sh <repo-dir>   -> runs the repository's pinned test suite there; exit 0 iff all 108 stable tests pass
REPO="${1:-/repo}"
OUT=$(mktemp /tmp/baseline.XXXXXX.xml)
cd "$REPO" && /venv/bin/python -m pytest -ra -q -p no:cacheprovider --timeout=900 --continue-on-collection-errors --junitxml="$OUT" >/dev/null 2>&1
/venv/bin/python - "$OUT" <<'PY'
import json, sys, xml.etree.ElementTree as ET
base = set(json.load(open("/root/.vp/BASELINE.json"))["stable_pass"])
passed = set()
for tc in ET.parse(sys.argv[1]).getroot().iter("testcase"):
    if not any(ch.tag in ("failure", "error", "skipped") for ch in tc):
        passed.add("%s::%s" % (tc.get("classname"), tc.get("name")))
missing = sorted(base - passed)
print("baseline: %d/%d stable tests pass" % (len(base & passed), len(base)))
for m in missing[:20]:
    print("  MISSING", m)
sys.exit(1 if missing else 0)
PY
rc=$?; rm -f "$OUT"; exit $rc
