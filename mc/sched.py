"""E4 - owned scheduler for joblib tasks (DESIGN.md 3.5).

(a) OrderBackend: a joblib backend that collects the delayed tasks of a ``Parallel(...)`` call
    and executes them one at a time, on the calling thread, in an explorer-chosen order.  It
    can also keep deep copies of the tasks (taken before anything ran) for (b).
(b) Interleaver: runs two task thunks on two real threads under a baton that is handed over at
    ``line`` events of frames whose code lives under the repository root (sys.settrace); every
    schedule with at most k preemptions is enumerated (iterative context bounding).
"""
import copy
import itertools
import sys
import threading

from joblib.parallel import ParallelBackendBase, parallel_backend, register_parallel_backend

from . import compat


# ------------------------------------------------------------------------------ (a)
class _Deferred:
    def __init__(self, backend, func, callback):
        self.backend, self.func, self.callback = backend, func, callback
        self.done, self.result, self.exc = False, None, None

    def get(self, timeout=None):
        if not self.done:
            self.backend.run_pending()
        if self.exc is not None:
            raise self.exc
        return self.result


class OrderBackend(ParallelBackendBase):
    """executes the batches of each Parallel call in the order given by ``chooser``"""

    uses_threads = True
    supports_sharedmem = True
    supports_timeout = False
    supports_retrieve_callback = False

    def __init__(self, chooser=None, capture=False, nesting_level=None, **kw):
        super().__init__(nesting_level=nesting_level, **kw)
        self.chooser = chooser or (lambda call_no, k: list(range(k)))
        self.capture = capture
        self.pending = []
        self.calls = []      # sizes of the Parallel calls seen (one entry per run_pending)
        self.captured = []   # per call: list of (f, args, kwargs) deep copies
        self._running = False

    def effective_n_jobs(self, n_jobs):
        return 64  # pre_dispatch='2*n_jobs' then hands every task over before the first result

    def configure(self, n_jobs=1, parallel=None, **kw):
        self.parallel = parallel
        return 64

    def submit(self, func, callback=None):
        d = _Deferred(self, func, callback)
        self.pending.append(d)
        return d

    apply_async = submit

    def run_pending(self):
        while self.pending:
            batch, self.pending = self.pending, []
            call_no = len(self.calls)
            self.calls.append(len(batch))
            if self.capture:
                # one deep copy of the whole call: objects shared between tasks stay shared
                items = []
                for d in batch:
                    items.extend(getattr(d.func, "items", []))
                self.captured.append(copy.deepcopy(items))
            order = list(self.chooser(call_no, len(batch)))
            assert sorted(order) == list(range(len(batch))), order
            for i in order:
                d = batch[i]
                try:
                    d.result = d.func()
                except BaseException as e:  # noqa - joblib re-raises on get()
                    d.exc = e
                d.done = True
            for d in batch:
                if d.callback is not None:
                    d.callback(d)  # may dispatch further batches into self.pending

    def get_nested_backend(self):
        from joblib._parallel_backends import SequentialBackend

        return SequentialBackend(nesting_level=(self.nesting_level or 0) + 1), None

    def abort_everything(self, ensure_ready=True):
        self.pending = []


class InterleaveBackend(OrderBackend):
    """Like OrderBackend, but two tasks of ONE chosen Parallel call are executed on two real
    threads under the Interleaver (the rest of the program - the other tasks, the code before
    and after the call - runs normally), so the *whole* operation can be compared with its
    sequential result and everything the tasks share stays shared."""

    def __init__(self, target_call=0, pair=(0, 1), first=0, switches=(), granularity="line", **kw):
        super().__init__(**kw)
        self.granularity = granularity
        self.target_call, self.pair, self.first = target_call, tuple(pair), first
        self.switches = [tuple(x) for x in switches]
        self.counts = None

    def run_pending(self):
        while self.pending:
            batch, self.pending = self.pending, []
            call_no = len(self.calls)
            self.calls.append(len(batch))
            todo = list(range(len(batch)))
            if call_no == self.target_call and len(batch) > max(self.pair):
                i, j = self.pair
                results, counts, _ = Interleaver(granularity=self.granularity)._run(
                    [batch[i].func, batch[j].func], self.first, self.switches)
                self.counts = counts
                for d, (ok, val) in zip((batch[i], batch[j]), results):
                    if ok:
                        d.result = val
                    else:
                        d.exc = val
                    d.done = True
                todo = [k for k in todo if k not in (i, j)]
            for k in todo:
                d = batch[k]
                try:
                    d.result = d.func()
                except BaseException as e:  # noqa
                    d.exc = e
                d.done = True
            for d in batch:
                if d.callback is not None:
                    d.callback(d)


_REGISTERED = []


def order_backend(**kw):
    """context manager: with order_backend(chooser=...) as b: ..."""
    if not _REGISTERED:
        register_parallel_backend("verif_order", OrderBackend)
        _REGISTERED.append(1)
    return parallel_backend("verif_order", **kw)


def interleave_backend(**kw):
    if "verif_interleave" not in _REGISTERED:
        register_parallel_backend("verif_interleave", InterleaveBackend)
        _REGISTERED.append("verif_interleave")
    return parallel_backend("verif_interleave", **kw)


def explore_call_interleavings(thunk, target_call, pair=(0, 1), first=0, idx=0, nchunks=1,
                               cap=None, granularity="line"):
    """run the whole ``thunk`` with tasks ``pair`` of its ``target_call``-th Parallel call
    interleaved: no preemption, then every single preemption point of thread ``first`` in the
    slice idx mod nchunks.  Yields (switches, (ok, value), counts)."""
    def run(switches):
        with interleave_backend(target_call=target_call, pair=pair, first=first,
                                switches=switches, granularity=granularity) as (b, _):
            try:
                val = (True, thunk())
            except Exception as e:  # noqa
                val = (False, e)
        return val, b.counts

    val, counts = run([])
    yield [], val, counts
    if counts is None:
        return
    k = 0
    for p in range(1 + idx, counts[first] + 1, nchunks):
        if cap is not None and k >= cap:
            return
        k += 1
        val, _ = run([(first, p)])
        yield [(first, p)], val, counts


def inversions(p):
    return sum(1 for i in range(len(p)) for j in range(i + 1, len(p)) if p[i] > p[j])


def orders(k, max_full=4, max_inv=2):
    """explored task orders of a k-task call: all k! for k<=max_full, otherwise every order
    with at most max_inv inversions (k<=7) / 1 inversion, plus the reversed order"""
    ident = list(range(k))
    if k <= 1:
        return [ident]
    if k <= max_full:
        return [list(p) for p in itertools.permutations(range(k))]
    out = [ident]
    for i in range(k - 1):
        p = ident[:]
        p[i], p[i + 1] = p[i + 1], p[i]
        out.append(p)
    if k <= 7 and max_inv >= 2:
        seen = {tuple(p) for p in out}
        for p in list(out[1:]):
            for i in range(k - 1):
                q = p[:]
                q[i], q[i + 1] = q[i + 1], q[i]
                if tuple(q) not in seen and inversions(q) == 2:
                    seen.add(tuple(q))
                    out.append(q)
    out.append(ident[::-1])
    return out


def explore_orders(thunk, deviations=1, max_full=4, only_call=None, pair_first=None,
                   pair_limit=None):
    """run ``thunk`` under every schedule in which at most ``deviations`` Parallel calls use a
    non-identity task order.  Yields (schedule, Outcome-like (ok, value/exc)).  The first run
    (identity everywhere) discovers the call sizes."""
    def run(sched):
        def chooser(call_no, k):
            p = sched.get(call_no)
            return p if p is not None and len(p) == k else list(range(k))

        with order_backend(chooser=chooser) as (b, _):
            try:
                val = (True, thunk())
            except Exception as e:  # noqa
                val = (False, e)
        return b.calls, val

    calls, base = run({})
    yield {}, calls, base
    multi = [(c, k) for c, k in enumerate(calls) if k > 1]
    if pair_first is not None:
        # shard of the two-deviation space: the first deviating call is the pair_first-th
        # multi-task call, the second any later one (single deviations belong to other shards)
        for (c1, k1), (c2, k2) in itertools.combinations(
                multi if pair_limit is None else multi[:pair_limit], 2):
            if c1 != (multi[pair_first][0] if pair_first < len(multi) else None):
                continue
            for p1 in orders(k1, 3, 1):
                for p2 in orders(k2, 3, 1):
                    if p1 == list(range(k1)) or p2 == list(range(k2)):
                        continue
                    calls2, val = run({c1: p1, c2: p2})
                    yield {c1: p1, c2: p2}, calls2, val
        return
    if only_call is not None:
        # shard: deviate only in the only_call-th multi-task Parallel call
        multi = multi[only_call:only_call + 1]
    for c, k in multi:
        for p in orders(k, max_full):
            if p == list(range(k)):
                continue
            calls2, val = run({c: p})
            yield {c: p}, calls2, val
    if deviations >= 2:
        for (c1, k1), (c2, k2) in itertools.combinations(multi, 2):
            for p1 in orders(k1, 3, 1):
                for p2 in orders(k2, 3, 1):
                    if p1 == list(range(k1)) or p2 == list(range(k2)):
                        continue
                    calls2, val = run({c1: p1, c2: p2})
                    yield {c1: p1, c2: p2}, calls2, val


def capture_tasks(thunk):
    """run thunk once (identity order) and return the deep-copied tasks of every Parallel call"""
    with order_backend(capture=True) as (b, _):
        thunk()
    return b.captured


# ------------------------------------------------------------------------------ (b)
class Deadlock(Exception):
    pass


class Interleaver:
    """Two threads, one baton.  A schedule is a list of switch points: the running thread is
    preempted when its own count of traced line events reaches the given number."""

    HORIZON = 200000

    def __init__(self, root=None, granularity="line"):
        self.root = root or compat.REPO
        # "line": hand-over points before every source line of a repository frame;
        # "opcode": before every bytecode instruction (finds read-modify-write races inside one
        # statement such as ``total[0] += x``)
        self.granularity = granularity

    def _run(self, thunks, first, switches):
        """switches: list of (tid, n): preempt thread tid after its n-th traced line event.
        Returns (results, counts, trace_ok)"""
        n = len(thunks)
        sems = [threading.Semaphore(0) for _ in range(n)]
        state = dict(cur=first, counts=[0] * n, done=[False] * n, results=[None] * n,
                     switches=list(switches), events=0, error=None)
        root = self.root
        lock = threading.Lock()

        def hand_over(me):
            # give the baton to the other live thread, if any
            others = [t for t in range(n) if t != me and not state["done"][t]]
            if not others:
                return False
            nxt = others[0]
            state["cur"] = nxt
            sems[nxt].release()
            return True

        gran = self.granularity

        def make_tracer(tid):
            def local(frame, event, arg):
                if event == gran:
                    state["counts"][tid] += 1
                    state["events"] += 1
                    if state["events"] > self.HORIZON:
                        raise Deadlock("horizon")
                    sw = state["switches"]
                    if sw and sw[0][0] == tid and sw[0][1] == state["counts"][tid]:
                        sw.pop(0)
                        if hand_over(tid):
                            sems[tid].acquire()
                return local

            def glob(frame, event, arg):
                if event == "call" and frame.f_code.co_filename.startswith(root):
                    if gran == "opcode":
                        frame.f_trace_opcodes = True
                    return local
                return None

            return glob

        def body(tid):
            sems[tid].acquire()
            sys.settrace(make_tracer(tid))
            try:
                state["results"][tid] = (True, thunks[tid]())
            except BaseException as e:  # noqa
                state["results"][tid] = (False, e)
            finally:
                sys.settrace(None)
                state["done"][tid] = True
                hand_over(tid)

        threads = [threading.Thread(target=body, args=(t,), daemon=True) for t in range(n)]
        for t in threads:
            t.start()
        sems[first].release()
        for t in threads:
            t.join(timeout=120)
            if t.is_alive():
                raise Deadlock("thread did not finish (no enabled thread?)")
        return state["results"], state["counts"], not state["switches"]

    def counts(self, make_thunks):
        """number of traced line events of each task when run alone, first task first"""
        res0, counts, _ = self._run(make_thunks(), 0, [])
        return res0, counts

    def explore_slice(self, make_thunks, first, counts, bound=1, idx=0, nchunks=1, cap=None):
        """schedules starting with thread ``first``: the sequential one, every single
        preemption point p (p = idx mod nchunks), and for bound 2 every (p, q) with p in the
        slice; yields (schedule, results, complete?)"""
        na, nb = counts[first], counts[1 - first]
        other = 1 - first
        k = 0
        if idx == 0:
            r, c, _ = self._run(make_thunks(), first, [])
            yield ("seq", first, []), r
        for p in range(1 + idx, na + 1, nchunks):
            if cap is not None and k >= cap:
                return
            k += 1
            r, c, ok = self._run(make_thunks(), first, [(first, p)])
            yield ("p1", first, [(first, p)]), r
        if bound >= 2:
            for p in range(1 + idx, na + 1, nchunks):
                for q in range(1, nb + 1):
                    if cap is not None and k >= cap:
                        return
                    k += 1
                    sw = [(first, p), (other, q)]
                    r, c, ok = self._run(make_thunks(), first, sw)
                    yield ("p2", first, sw), r

    def explore(self, make_thunks, bound=1, cap=None):
        """make_thunks() -> fresh list of two thunks (deep-copied tasks).  Yields
        (schedule, results).  Schedules: every start thread x every choice of at most ``bound``
        preemption points."""
        res0, counts, _ = self._run(make_thunks(), 0, [])
        yield ("seq", 0, []), res0, counts
        res1, counts1, _ = self._run(make_thunks(), 1, [])
        yield ("seq", 1, []), res1, counts1
        n0, n1 = counts[0], counts1[1] if counts1[1] else counts[1]
        n1 = counts[1]
        k = 0
        if bound >= 1:
            for first, npts in ((0, n0), (1, n1)):
                for p in range(1, npts + 1):
                    if cap is not None and k >= cap:
                        return
                    k += 1
                    r, c, ok = self._run(make_thunks(), first, [(first, p)])
                    yield ("p1", first, [(first, p)]), r, c
        if bound >= 2:
            for first, (na, nb) in ((0, (n0, n1)), (1, (n1, n0))):
                other = 1 - first
                for p in range(1, na + 1):
                    for q in range(1, nb + 1):
                        if cap is not None and k >= cap:
                            return
                        k += 1
                        sw = [(first, p), (other, q)]
                        r, c, ok = self._run(make_thunks(), first, sw)
                        yield ("p2", first, sw), r, c
