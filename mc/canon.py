"""Canonical, over-fine state fingerprints of live estimator objects (DESIGN.md 3.3).

digest(obj) walks instance dictionaries recursively and hashes every array / Series / scalar
it finds.  Two objects with the same digest hold the same data in the same attributes, so
merging them in an explicit-state search is sound; objects that behave identically but are
laid out differently get different digests, which only costs exploration time.
"""
import hashlib

import numpy as np
import pandas as pd

_SKIP_DEFAULT = ()


def _feed(h, x, skip, depth, seen):
    if depth > 12:
        h.update(b"<deep>")
        return
    if x is None or isinstance(x, (bool, int, str, bytes)):
        h.update(repr(x).encode())
    elif isinstance(x, float):
        h.update(("%.10g" % x).encode())
    elif isinstance(x, np.generic):
        _feed(h, x.item(), skip, depth, seen)
    elif isinstance(x, np.ndarray):
        h.update(str(x.shape).encode())
        if x.dtype.kind in "fc":
            h.update(np.array2string(np.round(x.astype(float), 9), threshold=10 ** 6).encode())
        elif x.dtype.kind == "O":
            for v in x.ravel():
                _feed(h, v, skip, depth + 1, seen)
        else:
            h.update(x.tobytes())
    elif isinstance(x, pd.Series):
        h.update(b"S" + str(x.dtype).encode() + repr(x.name).encode())
        _feed(h, np.asarray(x.index), skip, depth + 1, seen)
        _feed(h, np.asarray(x.values), skip, depth + 1, seen)
    elif isinstance(x, pd.DataFrame):
        h.update(b"D" + repr(list(x.columns)).encode() + repr([str(t) for t in x.dtypes]).encode())
        _feed(h, np.asarray(x.index), skip, depth + 1, seen)
        _feed(h, x.to_numpy(), skip, depth + 1, seen)
    elif isinstance(x, pd.Index):
        h.update(b"I")
        _feed(h, np.asarray(x), skip, depth + 1, seen)
    elif isinstance(x, dict):
        for k in sorted(x, key=repr):
            if k in skip:
                continue
            h.update(repr(k).encode())
            _feed(h, x[k], skip, depth + 1, seen)
    elif isinstance(x, (list, tuple)):
        h.update(b"[")
        for v in x:
            _feed(h, v, skip, depth + 1, seen)
        h.update(b"]")
    elif isinstance(x, (set, frozenset)):
        for v in sorted(x, key=repr):
            _feed(h, v, skip, depth + 1, seen)
    elif hasattr(x, "to_pandas") and hasattr(x, "is_relative"):
        h.update(b"FH" + repr(x.is_relative).encode())
        _feed(h, np.asarray(x.to_pandas()), skip, depth + 1, seen)
    elif callable(x) and not hasattr(x, "__dict__"):
        h.update(getattr(x, "__name__", "fn").encode())
    elif hasattr(x, "__dict__"):
        if id(x) in seen:
            h.update(b"<cycle>")
            return
        seen.add(id(x))
        h.update(type(x).__name__.encode())
        if hasattr(x, "params") and hasattr(x, "model") and "statsmodels" in type(x).__module__:
            # statsmodels results: fitted parameters + fitted values are the state
            try:
                _feed(h, dict(x.params) if hasattr(x.params, "items") else np.asarray(x.params),
                      skip, depth + 1, seen)
                _feed(h, np.asarray(x.fittedvalues), skip, depth + 1, seen)
            except Exception:
                h.update(b"<sm>")
            return
        if "statsmodels" in type(x).__module__:
            h.update(b"<sm-model>")
            return
        if type(x).__module__.startswith("sklearn.tree"):
            try:
                _feed(h, x.tree_.__getstate__()["nodes"].tobytes(), skip, depth + 1, seen)
            except Exception:
                h.update(b"<tree>")
            return
        _feed(h, vars(x), skip, depth + 1, seen)
    else:
        h.update(repr(x)[:200].encode())


def digest(obj, skip=_SKIP_DEFAULT):
    h = hashlib.blake2b(digest_size=10)
    _feed(h, obj, frozenset(skip), 0, set())
    return h.hexdigest()


DATA_ATTRS = ("_y", "_X", "_cutoff", "_fh")


def param_digest(obj):
    """fingerprint of everything except the remembered data / cutoff / horizon"""
    return digest(obj, skip=DATA_ATTRS)
