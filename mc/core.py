"""Runner shared by all checks: sharded exhaustive enumeration, violations, replay files,
known findings, evidence (DESIGN.md section 3).

A check module provides
    ID, LEVEL, RULE, ANCHORS (list of repo-relative globs), ASSUMPTIONS (list of str)
    gen_cases(tier, seed)   -> iterator of JSON-serialisable case dicts, simplest first;
                               the *structure* of the space must not depend on the seed
    run_case(case)          -> Result
and optionally
    TRUSTED (list), EXHAUSTIVE_NOTE (str)

The runner forks N workers *after* the repository was imported; worker w executes every
case whose index is congruent to w modulo N, so the whole space is covered exactly once
and nothing is sampled.  A wall-clock budget exists only as a safety net: when it is
hit the evidence says ``exhaustive: false`` and how many cases were completed.
"""
import hashlib
import itertools
import json
import multiprocessing as mp
import os
import signal
import sys
import time
import traceback

VERIF = os.path.dirname(os.path.dirname(os.path.abspath(__file__)))
NPROC = int(os.environ.get("VERIF_JOBS", "16"))
# runs against scratch trees (bin/mutant) must not overwrite the evidence of /repo
OUT = "/tmp/verif-scratch-out" if os.environ.get("VERIF_NO_EVIDENCE") else VERIF


CASE_TIMEOUT = int(os.environ.get("VERIF_CASE_TIMEOUT", "600"))


class CaseTimeout(BaseException):
    pass


def _on_alarm(signum, frame):
    raise CaseTimeout()


signal.signal(signal.SIGALRM, _on_alarm)


class Result:
    """What one executed case contributes."""

    __slots__ = (
        "violations",
        "nontrivial",
        "states",
        "transitions",
        "outcomes",
        "evals",
        "notes",
    )

    def __init__(self):
        self.violations = []  # list of dict(key, what, expected, observed, [case])
        self.nontrivial = []  # hashable keys of distinct non-trivial cases covered
        self.states = 0
        self.transitions = 0
        self.outcomes = []  # short strings: distinct observed outcome classes
        self.evals = 1
        self.notes = []

    def violate(self, key, what, expected=None, observed=None, case=None):
        v = dict(key=key, what=what, expected=_j(expected), observed=_j(observed))
        if case is not None:
            v["case"] = case
        self.violations.append(v)

    def nt(self, key):
        self.nontrivial.append(_h(key))

    def outcome(self, s):
        self.outcomes.append(str(s)[:80])


def _h(x):
    return hashlib.blake2b(repr(x).encode(), digest_size=8).hexdigest()


def _j(x):
    """best-effort conversion to something json can hold"""
    try:
        import numpy as np
        import pandas as pd
    except Exception:  # pragma: no cover
        np = pd = None
    if x is None or isinstance(x, (bool, int, str)):
        return x
    if isinstance(x, float):
        return x if x == x and abs(x) != float("inf") else repr(x)
    if np is not None:
        if isinstance(x, np.generic):
            return _j(x.item())
        if isinstance(x, np.ndarray):
            return _j(x.tolist())
    if pd is not None:
        if isinstance(x, pd.Series):
            return {"index": _j(list(x.index)), "values": _j(list(x.values))}
        if isinstance(x, pd.Index):
            return _j(list(x))
        if isinstance(x, pd.DataFrame):
            return {"columns": _j(list(x.columns)), "index": _j(list(x.index)),
                    "values": _j(x.values.tolist()) if x.size < 400 else "..."}
    if isinstance(x, dict):
        return {str(k): _j(v) for k, v in x.items()}
    if isinstance(x, (list, tuple, set, frozenset)):
        return [_j(v) for v in x]
    return repr(x)[:300]


class Outcome:
    """Result of calling code under test: a value or an exception (never propagates)."""

    __slots__ = ("ok", "value", "exc", "tb")

    def __init__(self, ok, value=None, exc=None, tb=None):
        self.ok, self.value, self.exc, self.tb = ok, value, exc, tb

    @property
    def kind(self):
        return "ok" if self.ok else type(self.exc).__name__

    def is_a(self, *types):
        return (not self.ok) and isinstance(self.exc, types)

    def brief(self):
        if self.ok:
            return "ok"
        return "%s: %s" % (type(self.exc).__name__, str(self.exc)[:160])


def call(fn, *a, **k):
    try:
        return Outcome(True, fn(*a, **k))
    except Exception as e:  # noqa - exceptions are outcomes
        return Outcome(False, exc=e, tb=traceback.format_exc(limit=6))


# --------------------------------------------------------------------------------------
def load_known(prop):
    path = os.path.join(VERIF, "known_findings.jsonl")
    known = {}
    if os.path.exists(path):
        for line in open(path):
            line = line.strip()
            if not line or line.startswith("#"):
                continue
            rec = json.loads(line)
            if rec.get("property") == prop and rec.get("status") == "known":
                for k in rec.get("keys", [rec.get("key")]):
                    known[k] = rec
    return known


def _worker(args):
    modname, tier, seed, w, n, deadline = args
    import importlib
    import random

    mod = importlib.import_module(modname)

    random.seed(seed)
    agg = dict(evals=0, cases=0, states=0, transitions=0, nontrivial=set(),
               outcomes={}, violations=[], samples=[], capped=False, notes=set())
    for i, case in enumerate(mod.gen_cases(tier, seed)):
        if ((i * 2654435761) >> 11) % n != w:  # deterministic scatter: balances clustered costs
            continue
        if time.time() > deadline:
            agg["capped"] = True
            break
        _t0 = time.time()
        try:
            signal.alarm(CASE_TIMEOUT)
            try:
                res = mod.run_case(case)
            finally:
                signal.alarm(0)
            if os.environ.get("VERIF_TIMING") and time.time() - _t0 > float(os.environ["VERIF_TIMING"]):
                print("SLOW %.1fs %s" % (time.time() - _t0, json.dumps(case, default=str)[:300]), flush=True)
        except CaseTimeout:
            res = Result()
            res.violate("timeout:%s" % case.get("kind", ""), "case did not finish within %d s "
                        "(hang / livelock of the code under test?)" % CASE_TIMEOUT,
                        observed="timeout")
        except Exception as e:  # uncaught => behaviour the oracle never saw on the clean tree
            res = Result()
            res.violate(
                "uncaught:%s:%s" % (type(e).__name__, case.get("kind", "")),
                "unexpected exception escaped the check body",
                observed=traceback.format_exc(limit=8),
            )
        agg["cases"] += 1
        agg["evals"] += res.evals
        agg["states"] += res.states
        agg["transitions"] += res.transitions
        agg["nontrivial"].update(res.nontrivial)
        for o in res.outcomes:
            agg["outcomes"][o] = agg["outcomes"].get(o, 0) + 1
        agg["notes"].update(res.notes)
        for v in res.violations:
            if len(agg["violations"]) < 200:
                v.setdefault("case", case)
                agg["violations"].append(v)
        if len(agg["samples"]) < 2 and (i // n) % 97 == 0:
            agg["samples"].append(case)
    return agg


def run_check(mod, tier, seed, budget_s=None):
    t0 = time.time()
    if budget_s is None:
        budget_s = float(os.environ.get("VERIF_BUDGET_S", 900 if tier == "quick" else 5400))
    deadline = t0 + budget_s
    n = NPROC
    if getattr(mod, "SERIAL", False):
        n = 1
    if hasattr(mod, "prepare"):
        mod.prepare(tier, seed)
    if n == 1:
        aggs = [_worker((mod.__name__, tier, seed, 0, 1, deadline))]
    else:
        ctx = mp.get_context("fork")
        with ctx.Pool(n) as pool:
            aggs = pool.map(_worker, [(mod.__name__, tier, seed, w, n, deadline) for w in range(n)])
    tot = dict(evals=0, cases=0, states=0, transitions=0)
    nontrivial, outcomes, violations, samples, notes = set(), {}, [], [], set()
    capped = False
    for a in aggs:
        for k in tot:
            tot[k] += a[k]
        nontrivial |= a["nontrivial"]
        for o, c in a["outcomes"].items():
            outcomes[o] = outcomes.get(o, 0) + c
        violations += a["violations"]
        samples += a["samples"][:1]
        capped = capped or a["capped"] or any(str(x).startswith("CAPPED") for x in a["notes"])
        notes |= a["notes"]
    return finish(mod, tier, seed, t0, tot, nontrivial, outcomes, violations, samples,
                  capped, notes)


def finish(mod, tier, seed, t0, tot, nontrivial, outcomes, violations, samples, capped,
           notes=()):
    from . import compat

    prop = mod.ID
    known = load_known(prop)
    fresh, suppressed = {}, {}
    for v in violations:
        if v["key"] in known:
            suppressed.setdefault(v["key"], v)
        else:
            fresh.setdefault(v["key"], v)
    for k, v in sorted(suppressed.items()):
        print("KNOWN-FINDING: property=%s %s [%s]" % (prop, known[k].get("what", ""), k))
    os.makedirs(os.path.join(OUT, "replays", prop), exist_ok=True)
    head = compat.repo_head()
    shown = 0
    for k, v in sorted(fresh.items()):
        rec = dict(property=prop, key=k, what=v["what"], case=v.get("case"),
                   expected=v.get("expected"), observed=v.get("observed"), repo_head=head)
        dig = _h(json.dumps(rec.get("case"), sort_keys=True, default=str) + k)
        path = os.path.join(OUT, "replays", prop, dig + ".json")
        with open(path, "w") as f:
            json.dump(rec, f, indent=1, default=str)
        if shown < int(os.environ.get("VERIF_SHOW", "25")):
            print("VIOLATION property=%s replay=%s" % (prop, path))
            print("  key=%s\n  what=%s\n  expected=%s\n  observed=%s" % (
                k, v["what"], str(v.get("expected"))[:300], str(v.get("observed"))[:300]))
        shown += 1
    if shown > 25:
        print("... %d distinct violation keys in total" % shown)

    level = mod.LEVEL
    cov = dict(
        evaluations=int(tot["evals"]),
        cases=int(tot["cases"]),
        distinct_nontrivial=len(nontrivial),
        rule=mod.RULE,
        samples=[_j(s) for s in samples[:6]] or ["<none>"],
        exhaustive=(not capped),
        distinct_outcomes=len(outcomes),
        outcome_histogram=dict(sorted(outcomes.items(), key=lambda kv: -kv[1])[:40]),
        repo_head=head,
        anchored_files_digest=compat.files_digest(getattr(mod, "ANCHORS", [])),
        known_findings_suppressed=sorted(suppressed),
        workers=NPROC,
    )
    if capped:
        cov["cap"] = "wall-clock budget hit; cases counts what was completed"
    if level == "model_checking":
        cov["states"] = int(tot["states"])
        cov["transitions"] = int(tot["transitions"])
        cov["traces_validated_against_impl"] = int(tot["transitions"])
    if hasattr(mod, "extra_coverage"):
        cov.update(mod.extra_coverage())
    ev = dict(
        property_id=prop,
        tier=tier,
        seed=int(seed),
        level=level,
        coverage=cov,
        assumptions=list(getattr(mod, "ASSUMPTIONS", [])) + sorted(notes),
        wall_s=round(time.time() - t0, 2),
        violations=len(fresh),
    )
    os.makedirs(os.path.join(OUT, "evidence"), exist_ok=True)
    evp = os.path.join(OUT, "evidence", prop + ".json")
    with open(evp, "w") as f:
        json.dump(ev, f, indent=1, default=str)
    print("%s tier=%s seed=%s cases=%d evaluations=%d nontrivial=%d states=%d transitions=%d "
          "outcomes=%d violations=%d known=%d exhaustive=%s wall=%.1fs" % (
              prop, tier, seed, tot["cases"], tot["evals"], len(nontrivial), tot["states"],
              tot["transitions"], len(outcomes), len(fresh), len(suppressed), not capped,
              time.time() - t0))
    return 1 if fresh else 0


def replay(mod, path):
    rec = json.load(open(path))
    case = rec["case"]
    print("replaying", json.dumps(case, default=str)[:2000])
    if hasattr(mod, "prepare"):
        mod.prepare("quick", 0)
    res = mod.run_case(case)
    if not res.violations:
        print("no violation on replay")
        return 0
    for v in res.violations:
        print("VIOLATION property=%s replay=%s" % (mod.ID, path))
        print("  key=%s\n  what=%s\n  expected=%s\n  observed=%s" % (
            v["key"], v["what"], v.get("expected"), v.get("observed")))
    return 1


# ---------------------------------------------------------------------------- helpers
def subsets(items, max_size=None, min_size=1):
    items = list(items)
    if max_size is None:
        max_size = len(items)
    for r in range(min_size, max_size + 1):
        for c in itertools.combinations(items, r):
            yield list(c)


def close(a, b, rtol=1e-9, atol=1e-12):
    import numpy as np

    a = np.asarray(a, dtype=float)
    b = np.asarray(b, dtype=float)
    if a.shape != b.shape:
        return False
    return bool(np.allclose(a, b, rtol=rtol, atol=atol, equal_nan=True))
