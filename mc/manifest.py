"""Generates /verif/MANIFEST.json from the table below (python -m mc.manifest)."""
import json
import os

VERIF = os.path.dirname(os.path.dirname(os.path.abspath(__file__)))

E1 = "bounded-exhaustive enumeration of a finite input/configuration product against a reference model"
E2 = "explicit-state search over call histories of the real object (state = canonical fingerprint), differential/reference oracle in every state"
E3 = "exhaustive fault / crash-point enumeration (deviation-bounded) over run histories of the real code"
E4 = "exhaustive task-order and preemption-bounded interleaving exploration under an owned scheduler"

TRUST = ("Trusted base: harness compatibility layer (DESIGN.md section 2) restoring removed "
         "third-party names, the plain-Python reference models, CPython/numpy/pandas/sklearn. "
         "Bounds: see evidence 'rule'. ")

CHECKS = {
    # id: (category, engine, technique, text, design_ref, note)
    "C01": ("exploration", "E1", E1,
            "every splitter configuration below the stated bounds (series length, horizon subsets, "
            "window, step, start mode, initial window, cutoff sets, train/test sizes) is executed and "
            "compared fold by fold with an integer-arithmetic reference tiling plus statement-level "
            "invariants; exhaustive within the bound, silent about larger sizes",
            "4/C01", TRUST + "In-sample horizons are outside the quantifier."),
    "C02": ("exploration", "E1", E1 + "; plus every sequence of <=3 conversions on one object (cache histories)",
            "every step set below the bound x container x relative/absolute x cutoff is converted "
            "through every public conversion and compared with a pure-Python set reference; every "
            "listed malformed horizon must be rejected while its valid twin is accepted",
            "4/C02", TRUST + "Float/object pd.Index is not used as a wrongly-typed representative (K3)."),
    "C11": ("exploration", "E1", E1,
            "NaiveForecaster / PolynomialTrendForecaster on every (n, strategy, sp, window, horizon, "
            "NaN pattern) below the bound against textbook references; statsmodels adapters against "
            "direct statsmodels calls with the same options",
            "4/C11", TRUST + "Small tagged value alphabets; Theta judged against the composition of its documented parts."),
    "C05": ("exploration", "E1", E1 + " with recording regressors (call-recording doubles)",
            "every (n, window, horizon subset, strategy, scitype, exogenous columns, fit/update history) "
            "below the bound: the arrays the wrapped regressor really received are compared with a "
            "plain-loop reference tabulariser, a tag-decoding leak monitor, and token tracing of "
            "recursive/dirrec feedback at predict time",
            "4/C05", TRUST + "'all full windows' read as: every window for which the whole horizon fits."),
    "C07": ("exploration", "E1", E1 + " with an honest per-fold loop and a call-log leak monitor",
            "every (splitter, window, step, horizon, n, strategy, scoring, forecaster, X, return_data) "
            "below the bound: each row of evaluate's table equals an honest fresh-clone fit/update, "
            "predict and metric(y_true, y_pred); a recording forecaster's log shows no observation "
            "at/after a fold's first test point before its prediction",
            "4/C07", TRUST + "Splitters themselves are C01's subject; timing columns ignored."),
    "C18": ("exploration", "E1", E1 + " with an independent tokenizer of the written text",
            "write->load round trips over the full option/value/label product, cross-format agreement "
            "of the bundled datasets, and train-then-test order of every bundled loader",
            "4/C18", TRUST + "Bundled files are printed at different precision per format (compared to one unit of the last printed digit)."),
    "C03": ("model_checking", "E2", E2 + "; metamorphic +7 index-shift twin on every history",
            "for every forecaster program of the menu (incl. depth-2 compositions) the complete tree of "
            "call histories over {predict, update(size, update_params)} up to depth 3 after fit is "
            "executed on the real object; after every call the cutoff and the forecast index are "
            "compared with cutoff+steps, and the whole history is re-run on a twin shifted by +7; further modes: "
            "alternating relative/absolute requests with equal numbers, re-passing remembered observations, two "
            "composites built from the same member objects driven in lock-step",
            "4/C03", TRUST + "Integer/range indexes only."),
    "C08": ("exploration", "E1", E1,
            "every (base forecaster, grid form, grid/randomized search, splitter, series, scorer direction, "
            "refit, strategy) below the bound: each cv_results_ row equals an independent evaluate of "
            "that candidate, best_* lie in the arg-best set of the declared direction, the refitted tuner "
            "equals a forecaster built from best_params_, and without refit predict/update raise NotFittedError",
            "4/C08", TRUST + "evaluate itself is C07's subject."),
    "C15": ("model_checking", "E2", "explicit-state breadth-first exploration of the conversion graph "
            "(state = panel x representation, transition = real conversion function) with a harness-side decoder as reference",
            "every path of length <=3 (thorough <=4) from every representation of 81 tagged panels through the 11 "
            "conversion functions with their argument variants decodes to the original panel and equals the direct "
            "conversion; nestedness predicates and check_X coercions on every reached state",
            "4/C15", TRUST + "from_long_to_nested(column_names=None) documents generated names; accepted."),
    "C10": ("model_checking", "E2", E2 + "; exact recursive object digest as state key; fresh-fit differential oracle",
            "per forecaster program a breadth-first search over {update, overlapping update, update_predict_single, "
            "update_predict} histories to depth 3-4 on the real object: cutoff, remembered data, repeated predict, "
            "equivalence with a fresh fit on the union, parameter digest across update_params=False, closed forms "
            "from the new cutoff, update_predict vs the loop of single calls, predict after update_predict",
            "4/C10", TRUST + "Refit-equivalence only demanded of programs whose every part refits on update (listed in evidence assumptions)."),
    "C14": ("exploration", "E1", E1,
            "24 closed-form transformer kinds over tagged panels/series (equal and unequal length, Series/array cells) "
            "x each transformer's option grid, against plain-loop references written from the docstrings",
            "4/C14", TRUST + "19 undocumented behaviours accepted as the code does them (listed in evidence assumptions)."),
    "C09": ("model_checking", "E2", E2 + "; hand-composed denotation of the parts + recording doubles",
            "for every composite program (ensembles over all member subsets x aggregates, pipelines over all "
            "transformer sequences of length <=2, multiplexers, stacking, depth-2 nestings) x horizon x call "
            "history, the real composite is compared with the composition of independently built parts, "
            "including everything the inner recording estimators receive in fit and in update; independence of two "
            "composites built from the same member objects; members fitted as tasks of one parallel call",
            "4/C09", TRUST + "Where the hand composition itself raises, only 'composite raises too' is judged."),
    "C13": ("model_checking", "E2", E2 + "; every stretch offset after every update; +7 shift twin",
            "per transformer configuration x training length x update schedule: after fit and after each update "
            "every stretch (all start offsets 0..m+4, lengths 1..5) is transformed and inverse-transformed on the "
            "real object; round trip, index preservation, fit_transform equivalence, seasonal phase relative to "
            "the training series, and equality with a +7 shifted twin",
            "4/C13", TRUST + "ACF/PACF are lag-indexed: values only under the shift."),
    "C06": ("exploration", "E1", E1 + " (plain-Python math.fsum reference) plus metamorphic laws",
            "all 18 metric functions and their classes over every y_true/y_pred/y_train/benchmark tuple of a small "
            "value alphabet (L<=3, thorough L<=4) x every option they accept, against formulas transcribed from "
            "the docstrings; non-negativity, perfect-forecast, swap, scale and class==function laws",
            "4/C06", TRUST + "Small value alphabet incl. zeros and sign changes."),
    "C16": ("exploration", "E1", E1 + " (metamorphic: all 24 permutations, all singletons and pairs, both containers)",
            "26 panel transformer configurations, 8 classifiers and the forest regressor: for every fit container x "
            "apply container, all 24 permutations / 4 singletons / 6 pairs of a 4-instance apply set must map row-wise",
            "4/C16", TRUST + "Estimators that cannot run here (Cython, soft deps, sklearn-abstract) are excluded and listed in evidence."),
    "C17": ("exploration", "E1", E1 + " with white-box recomputation from fitted trees/intervals",
            "8 classifiers + forest regressor x 6 label sets x balance x 6 panels x 3 seeds: probability shape, range, "
            "row sums, classes_ order, predict in arg-max set and label type, score; forest outputs recomputed from "
            "fitted intervals and trees; column ensemble = mean of members",
            "4/C17", TRUST + "Fractional float labels excluded (continuous targets by scikit-learn convention)."),
    "C19": ("model_checking", "E2+E3", "explicit-state breadth-first search over benchmark run histories with exhaustive "
            "crash-point injection (k-th fit / k-th predict raises, deviation-bounded) on the real Orchestrator and result stores",
            "every run history (length <=3, crash budget <=2, thorough <=5/3) over all valid option assignments x every "
            "crash point, each run on a new Orchestrator + new results object over the same path (plus two-run histories "
            "on ONE Orchestrator object); states merged on a "
            "canonical digest of the store; exactly-once, record == independent refit, load == stored, resume "
            "equals uninterrupted run (records and registry), identical re-run does no fits, overwrite recomputes",
            "4/C19", TRUST + "Crash = exception raised by the k-th fit/predict of a counting estimator (no partial file writes)."),
    "C04": ("model_checking", "E2", E2 + " over the constructed/fitted state machine; constructor contract over a type-directed value menu",
            "all 93 estimator classes (runnable ones with fit/apply, the others at construct level through import stubs) "
            "and 17 composites up to nesting depth 2: every history of length <=4 over {set_params, clone, fit, apply(m)} "
            "with is_fitted / NotFittedError / fit-returns-self / parameters-unchanged invariants in every state; every "
            "constructor parameter x alternative value read back by identity; every nested name__param written and "
            "read back from composite and component; every component replaced by name",
            "4/C04", TRUST + "Base arguments come from the repository's ESTIMATOR_TEST_PARAMS fixture."),
    "C20": ("fault_enumeration", "E3", E3 + " (one malformed aspect injected per call, every cell paired with its valid twin)",
            "complete matrix of 7299 (entry point, fault class, context) cells: fit/update/predict of 14 forecaster "
            "programs, four splitters, evaluate, both searches, train/test split, make_reduction: the faulty call must "
            "raise ValueError/TypeError/NotImplementedError, produce no result and no fitted state, and the twin call "
            "differing only in the offending aspect must succeed; a rejected horizon leaves no trace for the next call",
            "4/C20", TRUST + "Contexts are enumerated (3 series x 2 horizons) instead of randomised."),
    "C12": ("model_checking", "E2+E4", E2 + " + " + E4,
            "apply-call histories (every sequence of <=3 apply-type calls after fit, incl. same-shape different-content "
            "inputs) for 24 series transformers, 20 panel transformers x 2 containers, 23 forecaster programs, 9 panel "
            "estimators x 2 containers with input snapshots around fit and every call; twins x random_state x n_jobs x "
            "pickle; every task order of every runnable Parallel call site under an owned joblib backend; every "
            "<=1-preemption (thorough <=2) interleaving of two captured tasks on two real threads under a line-event baton; "
            "whole fit/predict calls with two tasks of one Parallel call interleaved at source-line and at bytecode "
            "granularity; pickled copies answer every apply call like the original",
            "4/C12 + 3.5", TRUST + "C/third-party frames are atomic steps; process-based parallelism not explored."),
}

PENDING_REASON = "check not built yet in this round; planned in DESIGN.md section 4 (engine listed there)"


def build():
    props = [json.loads(line)["id"] for line in open(os.path.join(VERIF, "properties.jsonl"))]
    checks = []
    for pid in props:
        if pid not in CHECKS:
            continue
        cat, eng, tech, text, ref, note = CHECKS[pid]
        checks.append(dict(
            property_id=pid,
            quick_cmd="bin/check %s --tier quick" % pid,
            thorough_cmd="bin/check %s --tier thorough" % pid,
            evidence_file="/verif/evidence/%s.json" % pid,
            replay_cmd_template="bin/check %s --replay {path}" % pid,
            engine=eng,
            level_claimed=dict(category=cat, text=text, design_ref=ref),
            level_note=note,
            technique=tech,
        ))
    man = dict(
        version=1,
        setup_cmd="bin/setup",
        hooks=dict(
            guard="SKTIME_VERIF",
            enable="no source hooks: the harness imports /repo's working tree directly "
                   "(VERIF_REPO overrides the root) after installing its compatibility layer; "
                   "SKTIME_VERIF=1 is set by bin/check but read by nothing under /repo",
            baseline_off_cmd="cd /repo && /venv/bin/python -m pytest -ra -q -p no:cacheprovider "
                             "--timeout=900 --continue-on-collection-errors",
            source_commits=[],
            add_only=True,
        ),
        engines=[
            dict(name="E1", path="mc/core.py", kind_free_text=E1,
                 serves_properties=[p for p in props if p in CHECKS and CHECKS[p][1] == "E1"]),
            dict(name="E2", path="mc/checks/c10.py", kind_free_text=E2,
                 serves_properties=[p for p in props if p in CHECKS and "E2" in CHECKS[p][1]]),
            dict(name="E3", path="mc/checks/c19.py", kind_free_text=E3,
                 serves_properties=[p for p in props if p in CHECKS and "E3" in CHECKS[p][1]]),
            dict(name="E4", path="mc/sched.py", kind_free_text=E4,
                 serves_properties=[p for p in props if p in CHECKS and "E4" in CHECKS[p][1]]),
        ],
        checks=checks,
        notes="All checks: cwd=/verif, honour VERIF_SEED/VERIF_TIER, import the working tree of "
              "/repo, write evidence/<id>.json and replays/<id>/*.json. known_findings.jsonl lists "
              "recorded and fixed defects.",
        not_applicable=[dict(property_id=p, reason=PENDING_REASON) for p in props
                        if p not in CHECKS],
    )
    with open(os.path.join(VERIF, "MANIFEST.json"), "w") as f:
        json.dump(man, f, indent=1)
    return man


if __name__ == "__main__":
    m = build()
    print("claimed:", [c["property_id"] for c in m["checks"]])
