"""Harness-side compatibility layer (DESIGN.md section 2).

Restores names/signatures that numpy / pandas / scikit-learn / scipy removed since
sktime 0.6.0 was written.  It patches third-party modules and ``sys.modules`` only and
never touches an object defined in the repository under test.  ``install()`` must run
before the repository's ``sktime`` is imported; it puts the repository root
(``VERIF_REPO``, default ``/repo``) first on ``sys.path`` and asserts afterwards that
the imported ``sktime`` really is that tree.
"""
import functools
import math
import os
import sys
import types
import warnings

REPO = os.path.realpath(os.environ.get("VERIF_REPO", "/repo"))
_installed = False


def _stub_module(name, reason="stubbed: binary/soft dependency not present"):
    mod = types.ModuleType(name)
    mod.__path__ = []  # behave like a package so that sub-imports resolve to stubs too

    def _getattr(attr, _name=name):
        if attr.startswith("__") and attr.endswith("__"):
            raise AttributeError(attr)

        def _raiser(*a, **k):
            raise RuntimeError("%s.%s: %s" % (_name, attr, reason))

        _raiser.__name__ = attr
        return _raiser

    mod.__getattr__ = _getattr
    mod.__verif_stub__ = True
    return mod


STUBS = [
    "pmdarima",
    "pmdarima.arima",
    "fbprophet",
    "fbprophet.forecaster",
    "tbats",
    "tsfresh",
    "tsfresh.utilities",
    "tsfresh.utilities.dataframe_functions",
    "tsfresh.feature_extraction",
    "tsfresh.feature_extraction.settings",
    "tsfresh.feature_selection",
    "tsfresh.defaults",
    "catch22",
    "stumpy",
    "hcrystalball",
    "hcrystalball.wrappers",
]


def install(stubs=True):
    global _installed
    if _installed:
        return
    _installed = True
    warnings.filterwarnings("ignore")
    os.environ.setdefault("OMP_NUM_THREADS", "1")
    import numpy as np
    import pandas as pd

    # K1/K2
    for n, t in dict(float=float, int=int, bool=bool, object=object, str=str).items():
        if n not in np.__dict__:
            setattr(np, n, t)
    if "math" not in np.__dict__:
        np.math = math

    # K3/K4
    pd.Int64Index = pd.Index
    if not hasattr(pd.Index, "is_monotonic"):
        pd.Index.is_monotonic = property(lambda self: self.is_monotonic_increasing)
    if not hasattr(pd.Series, "is_monotonic"):
        pd.Series.is_monotonic = property(lambda self: self.is_monotonic_increasing)

    # K5
    def _s_append(self, to_append, ignore_index=False, verify_integrity=False):
        if isinstance(to_append, (list, tuple)):
            objs = [self] + list(to_append)
        else:
            objs = [self, to_append]
        return pd.concat(
            objs, ignore_index=ignore_index, verify_integrity=verify_integrity
        )

    pd.Series.append = _s_append

    def _df_append(self, other, ignore_index=False, verify_integrity=False, sort=False):
        if isinstance(other, dict):
            other = pd.DataFrame([other])
        elif isinstance(other, pd.Series):
            other = other.to_frame().T
        return pd.concat(
            [self, other],
            ignore_index=ignore_index,
            verify_integrity=verify_integrity,
            sort=sort,
        )

    pd.DataFrame.append = _df_append

    # K6
    pd.DataFrame.iteritems = pd.DataFrame.items
    pd.Series.iteritems = pd.Series.items

    # K7
    _read_csv = pd.read_csv

    @functools.wraps(_read_csv)
    def read_csv(*a, squeeze=False, **k):
        df = _read_csv(*a, **k)
        if squeeze and isinstance(df, pd.DataFrame) and df.shape[1] == 1:
            return df.iloc[:, 0]
        return df

    pd.read_csv = read_csv

    # K9
    import sklearn.base

    def _pprint(params, offset=0, printer=repr):
        options = np.get_printoptions()
        np.set_printoptions(precision=5, threshold=64, edgeitems=2)
        params_list = list()
        this_line_length = offset
        line_sep = ",\n" + (1 + offset // 2) * " "
        for i, (k, v) in enumerate(sorted(params.items())):
            if type(v) is float:
                this_repr = "%s=%s" % (k, str(v))
            else:
                this_repr = "%s=%s" % (k, printer(v))
            if len(this_repr) > 500:
                this_repr = this_repr[:300] + "..." + this_repr[-100:]
            if i > 0:
                if this_line_length + len(this_repr) >= 75 or "\n" in this_repr:
                    params_list.append(line_sep)
                    this_line_length = len(line_sep)
                else:
                    params_list.append(", ")
                    this_line_length += 2
            params_list.append(this_repr)
            this_line_length += len(this_repr)
        np.set_printoptions(**options)
        lines = "".join(params_list)
        lines = "\n".join(ln.rstrip(" ") for ln in lines.split("\n"))
        return lines

    if not hasattr(sklearn.base, "_pprint"):
        sklearn.base._pprint = _pprint

    # K10
    import sklearn.utils.metaestimators as me
    from sklearn.utils.metaestimators import available_if

    def if_delegate_has_method(delegate):
        if isinstance(delegate, (list, tuple)):
            delegates = tuple(delegate)
        else:
            delegates = (delegate,)

        def deco(fn):
            name = fn.__name__

            def check(self):
                for d in delegates:
                    if hasattr(self, d):
                        getattr(getattr(self, d), name)
                        return True
                raise AttributeError(name)

            return available_if(check)(fn)

        return deco

    if not hasattr(me, "if_delegate_has_method"):
        me.if_delegate_has_method = if_delegate_has_method

    # K11
    import scipy.stats
    import scipy.stats._morestats as _ms

    sys.modules["scipy.stats.morestats"] = _ms
    scipy.stats.morestats = _ms

    # K12
    import sklearn.model_selection._search as _se

    if not hasattr(_se, "_check_param_grid"):

        def _check_param_grid(param_grid):
            if hasattr(param_grid, "items"):
                param_grid = [param_grid]
            for p in param_grid:
                for name, v in p.items():
                    if isinstance(v, np.ndarray) and v.ndim > 1:
                        raise ValueError("Parameter array should be one-dimensional.")
                    if isinstance(v, str) or not isinstance(
                        v, (np.ndarray, list, tuple)
                    ):
                        raise ValueError(
                            "Parameter grid for parameter (%s) needs to be a list or "
                            "numpy array" % name
                        )
                    if len(v) == 0:
                        raise ValueError(
                            "Parameter values for parameter (%s) need to be a "
                            "non-empty sequence." % name
                        )

        _se._check_param_grid = _check_param_grid

    # K13
    import sklearn.metrics._regression as _rg

    _orig_crt = _rg._check_reg_targets

    def _check_reg_targets(*args, **kw):
        if len(args) == 3 and "xp" not in kw and "sample_weight" not in kw:
            y_true, y_pred, multioutput = args
            out = _orig_crt(y_true, y_pred, None, multioutput, **kw)
            y_type, y_true, y_pred, _sw, multioutput = out
            return y_type, y_true, y_pred, multioutput
        return _orig_crt(*args, **kw)

    _rg._check_reg_targets = _check_reg_targets

    # K14
    import sklearn.utils.stats as _st

    _orig_wp = _st._weighted_percentile

    def _weighted_percentile(array, sample_weight, percentile=50, **kw):
        if "percentile_rank" in kw:
            percentile = kw.pop("percentile_rank")
        return _orig_wp(array, sample_weight, percentile, **kw)

    _st._weighted_percentile = _weighted_percentile

    # K16
    import sklearn.neighbors._base as _nb

    if not hasattr(_nb, "_check_weights"):

        def _check_weights(weights):
            if weights in (None, "uniform", "distance") or callable(weights):
                return weights
            raise ValueError("weights not recognized")

        _nb._check_weights = _check_weights

    # K15
    import sklearn.metrics as _skm

    _orig_mse = _skm.mean_squared_error

    def mean_squared_error(
        y_true,
        y_pred,
        *,
        sample_weight=None,
        multioutput="uniform_average",
        squared=True
    ):
        out = _orig_mse(
            y_true, y_pred, sample_weight=sample_weight, multioutput="raw_values"
        )
        if not squared:
            out = np.sqrt(out)
        if isinstance(multioutput, str):
            if multioutput == "raw_values":
                return out
            multioutput = None
        return np.average(out, weights=multioutput)

    _skm.mean_squared_error = mean_squared_error

    # K18
    if "numba" not in sys.modules:
        nb = types.ModuleType("numba")

        def njit(*a, **k):
            if len(a) == 1 and callable(a[0]) and not k:
                return a[0]
            return lambda f: f

        nb.njit = nb.jit = njit
        nb.prange = range

        def vectorize(*a, **k):
            def deco(f):
                return np.vectorize(f)

            if len(a) == 1 and callable(a[0]) and not k:
                return deco(a[0])
            return deco

        nb.vectorize = vectorize
        nb.__version__ = "0.0-stub"
        nbt = types.ModuleType("numba.typed")
        nbt.Dict = dict
        nbt.List = list
        nb.typed = nbt
        nbtypes = types.ModuleType("numba.types")
        nb.types = nbtypes
        sys.modules["numba"] = nb
        sys.modules["numba.typed"] = nbt
        sys.modules["numba.types"] = nbtypes

    # K17
    import sklearn.ensemble._forest as _fo

    for _cls in (_fo.ForestClassifier, _fo.ForestRegressor):

        def _mk(orig):
            @functools.wraps(orig)
            def __init__(self, *a, base_estimator=None, **k):
                if base_estimator is not None and "estimator" not in k and not a:
                    k["estimator"] = base_estimator
                orig(self, *a, **k)
                self.base_estimator = self.estimator

            return __init__

        if not getattr(_cls.__init__, "__verif_wrapped__", False):
            _cls.__init__ = _mk(_cls.__init__)
            _cls.__init__.__verif_wrapped__ = True

    # the repository under test goes first on sys.path
    if REPO in sys.path:
        sys.path.remove(REPO)
    sys.path.insert(0, REPO)
    for k in [k for k in sys.modules if k == "sktime" or k.startswith("sktime.")]:
        del sys.modules[k]

    if stubs:
        for name in STUBS:
            if name not in sys.modules:
                try:
                    __import__(name)
                except Exception:
                    sys.modules[name] = _stub_module(name)
        for name in (
            "sktime.distances.elastic_cython",
            "sktime.classification.shapelet_based.mrseql.mrseql",
            "sktime.__check_build._check_build",
        ):
            sys.modules[name] = _stub_module(name)

    import sktime

    assert os.path.realpath(sktime.__file__).startswith(REPO + os.sep), (
        sktime.__file__,
        REPO,
    )

    # K8: old pandas accepted any sequence-protocol object (len+getitem) as index data
    _orig_index_new = pd.Index.__new__

    def _index_new(cls, data=None, *a, **k):
        if (
            data is not None
            and not hasattr(data, "__iter__")
            and not hasattr(data, "__array__")
            and hasattr(data, "__len__")
            and hasattr(data, "__getitem__")
            and not isinstance(data, (str, bytes))
        ):
            if hasattr(data, "to_pandas"):
                data = data.to_pandas()
            else:
                data = [data[i] for i in range(len(data))]
        return _orig_index_new(cls, data, *a, **k)

    pd.Index.__new__ = _index_new


def repo_head():
    import subprocess

    try:
        return (
            subprocess.run(
                ["git", "-C", REPO, "rev-parse", "HEAD"],
                capture_output=True,
                text=True,
                timeout=20,
            ).stdout.strip()
            or "unknown"
        )
    except Exception:
        return "unknown"


def files_digest(relpaths):
    import glob
    import hashlib

    h = hashlib.sha256()
    for rp in sorted(relpaths):
        for p in sorted(glob.glob(os.path.join(REPO, rp), recursive=True)):
            if os.path.isfile(p):
                h.update(p[len(REPO) :].encode())
                with open(p, "rb") as f:
                    h.update(f.read())
    return h.hexdigest()[:16]
