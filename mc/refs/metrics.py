"""Plain-Python reference formulas of the forecasting metrics (C06).

Transcribed from the docstrings of sktime/performance_metrics/forecasting/_functions.py and
from Hyndman & Koehler (2006); nothing is imported from numpy / sklearn / sktime.

Data layout: ``y`` is a list of L floats (univariate) or a list of L rows of n_outputs
floats.  ``horizon_weight`` is None or a list of L positive numbers.  The result is a float,
or a list of floats for ``multioutput="raw_values"``.

Documented conventions that are not part of the textbook formula
* eps = machine epsilon of float64.  "returns a large value instead of inf": every
  denominator d >= 0 is replaced by max(d, eps).
* relative errors e_t / e*_t: the benchmark error keeps its sign, |e*_t| is floored at eps
  (e*_t = 0 counts as +eps).
* geometric means: a zero (squared) relative error is replaced by eps before the logarithm
  (docstring examples of geometric_mean_relative_*_error contain such a point).
* weighted median = lower weighted median (smallest value whose cumulative weight reaches
  half of the total weight); unweighted median = midpoint of the two middle values.
* square_root=True takes the root per output column, then the columns are averaged
  (docstring examples of mean_squared_error / mean_squared_percentage_error).
* scaled errors and relative_loss with an averaging ``multioutput``: the ratio of the averaged
  numerator to the averaged denominator (docstring examples of mean_absolute_scaled_error
  0.18181818 and mean_squared_scaled_error 0.15679361); ``raw_values``: column-wise ratio.
"""
import math

EPS = 2.0 ** -52

BASIC = ("mean_absolute_error", "median_absolute_error", "mean_squared_error",
         "median_squared_error")
PERCENTAGE = ("mean_absolute_percentage_error", "median_absolute_percentage_error",
              "mean_squared_percentage_error", "median_squared_percentage_error")
SCALED = ("mean_absolute_scaled_error", "median_absolute_scaled_error",
          "mean_squared_scaled_error", "median_squared_scaled_error")
RELATIVE = ("mean_relative_absolute_error", "median_relative_absolute_error",
            "geometric_mean_relative_absolute_error", "geometric_mean_relative_squared_error")


def columns(y):
    if len(y) and isinstance(y[0], (list, tuple)):
        return [[float(v) for v in c] for c in zip(*y)]
    return [[float(v) for v in y]]


def wmean(xs, w=None):
    if w is None:
        return math.fsum(xs) / len(xs)
    return math.fsum(x * wi for x, wi in zip(xs, w)) / math.fsum(w)


def median(xs):
    s = sorted(xs)
    n = len(s)
    if n % 2:
        return s[n // 2]
    return (s[n // 2 - 1] + s[n // 2]) / 2.0


def wmedian(xs, w=None):
    if w is None:
        return median(xs)
    order = sorted(range(len(xs)), key=lambda i: xs[i])
    half = math.fsum(w) / 2.0
    cum = 0.0
    for i in order:
        cum += w[i]
        if cum >= half:
            return xs[i]
    return xs[order[-1]]


def wgmean(xs, w=None):
    xs = [EPS if x == 0.0 else x for x in xs]
    if w is None:
        w = [1.0] * len(xs)
    return math.exp(math.fsum(wi * math.log(x) for x, wi in zip(xs, w)) / math.fsum(w))


def pct_error(y, f, symmetric):
    if symmetric:
        return 2.0 * abs(y - f) / max(abs(y) + abs(f), EPS)
    return (y - f) / max(abs(y), EPS)


def rel_error(y, f, b):
    d = y - b
    if d >= 0:
        d = max(d, EPS)
    else:
        d = min(d, -EPS)
    return (y - f) / d


def asym_error(y, f, threshold, left, right):
    e = y - f
    kind = left if e < threshold else right
    return e * e if kind == "squared" else abs(e)


def _agg(name):
    return wmean if name.startswith("mean_") else wmedian


def column_loss(name, y, f, w=None, symmetric=True, square_root=False):
    """value of a basic / percentage metric on one column"""
    if name in BASIC:
        if "absolute" in name:
            e = [abs(a - b) for a, b in zip(y, f)]
        else:
            e = [(a - b) * (a - b) for a, b in zip(y, f)]
    elif name in PERCENTAGE:
        p = [pct_error(a, b, symmetric) for a, b in zip(y, f)]
        if "absolute" in name:
            e = [abs(v) for v in p]
        else:
            e = [v * v for v in p]
    else:
        raise KeyError(name)
    v = _agg(name)(e, w)
    if square_root:
        v = math.sqrt(v)
    return v


def combine(vals, multioutput):
    if multioutput == "raw_values":
        return list(vals)
    if multioutput == "uniform_average":
        return math.fsum(vals) / len(vals)
    return math.fsum(v * m for v, m in zip(vals, multioutput)) / math.fsum(multioutput)


def _ratio(num, den, multioutput, square_root=False):
    """-> (value, clamped flags)"""
    if multioutput == "raw_values":
        out = [n / max(d, EPS) for n, d in zip(num, den)]
        clamped = [d < EPS for d in den]
        if square_root:
            out = [math.sqrt(v) for v in out]
        return out, clamped
    n, d = combine(num, multioutput), combine(den, multioutput)
    v = n / max(d, EPS)
    if square_root:
        v = math.sqrt(v)
    return v, [d < EPS]


def metric(name, y_true, y_pred, horizon_weight=None, multioutput="uniform_average",
           symmetric=True, square_root=False, y_train=None, sp=1, y_pred_benchmark=None,
           asymmetric_threshold=0.0, left_error_function="squared",
           right_error_function="absolute", relative_loss_function="mean_absolute_error",
           info=None):
    """reference value; ``info`` (a dict) receives 'clamped' for ratio metrics"""
    Y, F = columns(y_true), columns(y_pred)
    w = None if horizon_weight is None else [float(v) for v in horizon_weight]
    if name in BASIC or name in PERCENTAGE:
        vals = [column_loss(name, y, f, w, symmetric, square_root) for y, f in zip(Y, F)]
        return combine(vals, multioutput)
    if name == "mean_asymmetric_error":
        vals = [wmean([asym_error(a, b, asymmetric_threshold, left_error_function,
                                  right_error_function) for a, b in zip(y, f)], w)
                for y, f in zip(Y, F)]
        return combine(vals, multioutput)
    if name in SCALED:
        base = name.replace("_scaled", "")
        T = columns(y_train)
        num = [column_loss(base, y, f, w) for y, f in zip(Y, F)]
        # in-sample seasonal naive forecast: y_t predicted by y_{t-sp}; never weighted
        den = [column_loss(base, t[sp:], t[:len(t) - sp]) for t in T]
        v, clamped = _ratio(num, den, multioutput, square_root)
        if info is not None:
            info["clamped"] = clamped
            info["den"] = list(den)
        return v
    if name in RELATIVE:
        B = columns(y_pred_benchmark)
        vals = []
        for y, f, b in zip(Y, F, B):
            r = [rel_error(a, c, d) for a, c, d in zip(y, f, b)]
            if name.endswith("absolute_error"):
                e = [abs(v) for v in r]
            else:
                e = [v * v for v in r]
            if name.startswith("mean_"):
                v = wmean(e, w)
            elif name.startswith("median_"):
                v = wmedian(e, w)
            else:
                v = wgmean(e, w)
            if square_root:
                v = math.sqrt(v)
            vals.append(v)
        return combine(vals, multioutput)
    if name == "relative_loss":
        B = columns(y_pred_benchmark)
        lf = relative_loss_function
        num = [column_loss(lf, y, f, w) for y, f in zip(Y, F)]
        den = [column_loss(lf, y, b, w) for y, b in zip(Y, B)]
        v, clamped = _ratio(num, den, multioutput)
        if info is not None:
            info["clamped"] = clamped
        return v
    raise KeyError(name)


def perfect_value(name, square_root=False):
    """documented value for y_pred == y_true"""
    if name.startswith("geometric_mean"):
        return math.sqrt(EPS) if square_root else EPS
    return 0.0
