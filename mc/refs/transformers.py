"""Plain-loop reference models of the closed-form transformers (C14).

Every function here is written from the DOCSTRING of the transformer (or, where the
docstring only names a published method, from that publication), with python lists,
``fractions.Fraction`` and ``math.fsum`` - never by calling or copying the implementation.
A series is a python list of floats.
"""
import math
from fractions import Fraction


# ----------------------------------------------------------------------------- tagged data
def tag(i, c, t, fam=0):
    """value of instance i, column c, time t.  fam 0: exactly 100 i + 10 c + t + 0.5;
    fam 1 adds a small non-linear wiggle in {0, 1/8, 2/8, 3/8} so that slopes, derivatives
    and correlations are not degenerate; (i, c, t) stay recoverable with ``untag``."""
    v = 100.0 * i + 10.0 * c + t + 0.5
    if fam == 1:
        v += 0.125 * ((3 * t * t + i + 2 * c) % 4)
    return v


def untag(v):
    """(instance, column, time) encoded in a tagged value"""
    v = float(v)
    if v != v or v < 0 or (v % 1.0) < 0.5:  # fill values 0 / -1 / NaN carry no tag
        return None
    return int(v // 100), int((v % 100) // 10), int(v % 10)


# ----------------------------------------------------------------------------- panel -> panel
def pad(vals, length, fill):
    """PaddingTransformer: the series followed by the fill value up to ``length``"""
    return list(vals) + [fill] * (length - len(vals))


def truncate(vals, lower, upper):
    """TruncationTransformer: upper None -> the first ``lower`` values ("truncate to a
    specific length"); otherwise the values in the range [lower, upper) (upper exclusive)"""
    if upper is None:
        return [vals[t] for t in range(lower)]
    return [vals[t] for t in range(lower, upper)]


def interpolate(vals, m):
    """TSInterpolator: piecewise-linear function through (k/(L-1), vals[k]) sampled at
    the m equally spaced points of [0, 1] (a single point samples 0)."""
    L = len(vals)
    out = []
    for j in range(m):
        pos = Fraction(j, m - 1) * (L - 1) if m > 1 else Fraction(0)
        lo = int(pos)  # floor, pos >= 0
        if lo >= L - 1:
            out.append(vals[L - 1])
            continue
        w = float(pos - lo)
        out.append(vals[lo] * (1.0 - w) + vals[lo + 1] * w)
    return out


def tabular_row(cells):
    """Tabularizer / ColumnConcatenator: the columns one after another, each in time order"""
    row = []
    for cell in cells:
        row.extend(cell)
    return row


def paa(vals, n):
    """PAA: n equal frames of (possibly fractional) length L/n; frame k covers the real
    interval [k L/n, (k+1) L/n) of the step function that equals vals[t] on [t, t+1); the
    output is the mean of that function over the frame (exact overlap weights)."""
    L = len(vals)
    fl = Fraction(L, n)
    out = []
    for k in range(n):
        a, b = k * fl, (k + 1) * fl
        terms = []
        for t in range(L):
            ov = min(b, Fraction(t + 1)) - max(a, Fraction(t))
            if ov > 0:
                terms.append(float(ov) * vals[t])
        out.append(math.fsum(terms) / float(fl))
    return out


def sliding_windows(vals, w):
    """SlidingWindowSegmenter: pad floor(w/2) copies of the first/last value on either end,
    then windows of size w with hop 1; one window per original time point."""
    p = w // 2
    padded = [vals[0]] * p + list(vals) + [vals[-1]] * p
    return [padded[j:j + w] for j in range(len(vals))]


def ddtw_derivative(vals):
    """Keogh & Pazzani (2001) derivative estimate used by DerivativeSlopeTransformer:
    d[i] = ((q[i]-q[i-1]) + (q[i+1]-q[i-1])/2)/2 for inner points, the first and last
    estimates are copies of their neighbours."""
    L = len(vals)
    inner = [((vals[i] - vals[i - 1]) + (vals[i + 1] - vals[i - 1]) / 2.0) / 2.0
             for i in range(1, L - 1)]
    return [inner[0]] + inner + [inner[-1]]


def plateaus(vals, value, min_length):
    """PlateauFinder: maximal runs of ``value`` (NaN: runs of NaN, inf: runs of +-inf) of
    length >= min_length -> (starts, lengths)"""
    def hit(v):
        if value != value:
            return v != v
        if math.isinf(value):
            return math.isinf(v)
        return v == value

    starts, lengths = [], []
    t, L = 0, len(vals)
    while t < L:
        if hit(vals[t]):
            s = t
            while t < L and hit(vals[t]):
                t += 1
            if t - s >= min_length:
                starts.append(s)
                lengths.append(t - s)
        else:
            t += 1
    return starts, lengths


# ----------------------------------------------------------------------------- summaries
def mean(vals):
    return math.fsum(vals) / len(vals)


def std(vals):
    m = mean(vals)
    return math.sqrt(math.fsum((v - m) ** 2 for v in vals) / len(vals))


def ls_slope(vals):
    """ordinary least-squares slope of vals against 1..n (utils/slope_and_trend._slope)"""
    n = len(vals)
    xs = [float(k + 1) for k in range(n)]
    xm, ym = mean(xs), mean(vals)
    den = math.fsum((x - xm) ** 2 for x in xs)
    if den == 0:
        return float("nan")
    return math.fsum((x - xm) * (y - ym) for x, y in zip(xs, vals)) / den


def tls_slope(vals):
    """total (orthogonal) least squares slope of vals against 1..n: the direction of the
    principal axis of the scatter, angle = atan2(2 Sxy, Sxx - Syy) / 2.  None when the
    covariance is exactly zero (slope undefined / 0 / vertical - not judged)."""
    n = len(vals)
    xs = [float(k + 1) for k in range(n)]
    xm, ym = mean(xs), mean(vals)
    sxx = math.fsum((x - xm) ** 2 for x in xs)
    syy = math.fsum((y - ym) ** 2 for y in vals)
    sxy = math.fsum((x - xm) * (y - ym) for x, y in zip(xs, vals))
    if sxy == 0:
        return None
    return math.tan(0.5 * math.atan2(2.0 * sxy, sxx - syy))


def approx_equal_segments(L, n):
    """n contiguous segments with boundaries floor(k L / n) (exact integer arithmetic)"""
    return [((k * L) // n, ((k + 1) * L) // n) for k in range(n)]


def polyfit(vals, order):
    """least-squares polynomial of the given order through (t, vals[t]), t = 0..n-1;
    returns the fitted values (coefficient order is not part of the model)."""
    n = len(vals)
    k = order + 1
    A = [[float(t) ** p for p in range(k)] for t in range(n)]
    # normal equations, Gaussian elimination with partial pivoting
    M = [[math.fsum(A[t][a] * A[t][b] for t in range(n)) for b in range(k)] +
         [math.fsum(A[t][a] * vals[t] for t in range(n))] for a in range(k)]
    for col in range(k):
        piv = max(range(col, k), key=lambda r: abs(M[r][col]))
        if abs(M[piv][col]) < 1e-12:
            return None
        M[col], M[piv] = M[piv], M[col]
        for r in range(k):
            if r != col:
                f = M[r][col] / M[col][col]
                M[r] = [x - f * y for x, y in zip(M[r], M[col])]
    coef = [M[a][k] / M[a][a] for a in range(k)]
    return [math.fsum(coef[p] * A[t][p] for p in range(k)) for t in range(n)], coef


# ----------------------------------------------------------------------------- single series
def acf(vals, nlags, adjusted=False):
    """sample autocorrelation r_k = c_k / c_0 with c_k = sum_{t>=k}(x_t-m)(x_{t-k}-m) / n
    (adjusted: / (n-k))"""
    n = len(vals)
    m = mean(vals)
    d = [v - m for v in vals]
    c0 = math.fsum(x * x for x in d) / n
    out = []
    for k in range(nlags + 1):
        ck = math.fsum(d[t] * d[t - k] for t in range(k, n)) / ((n - k) if adjusted else n)
        out.append(ck / c0)
    return out


def minmax(fit_vals, vals):
    lo, hi = min(fit_vals), max(fit_vals)
    return [(v - lo) / (hi - lo) for v in vals]


def standardize(fit_vals, vals):
    m, s = mean(fit_vals), std(fit_vals)
    return [(v - m) / s for v in vals]


def impute_candidates(vals, method, value=None):
    """Imputer.  vals: list with NaN at the missing positions.  Returns a list with, for
    every position, the list of acceptable outputs (several where the docstring leaves a
    choice), or the string "range" (method random: anything in [min, max] of the observed
    values), or None when nothing is decided (no observed value at all)."""
    n = len(vals)
    obs = [(t, v) for t, v in enumerate(vals) if v == v]
    if not obs:
        return None
    ov = [v for _, v in obs]
    out = []
    filled = None
    for p in range(n):
        v = vals[p]
        if v == v:
            out.append([v])
            continue
        before = [(t, x) for t, x in obs if t < p]
        after = [(t, x) for t, x in obs if t > p]
        # constant extension at the ends: documented only by the comment "fill first/last
        # elements of series, as some methods cant impute those"
        edge = None
        if not before:
            edge = after[0][1]
        elif not after:
            edge = before[-1][1]
        if method == "constant":
            out.append([value])
        elif method == "mean":
            out.append([mean(ov)])
        elif method == "median":
            s = sorted(ov)
            k = len(s)
            out.append([s[k // 2] if k % 2 else (s[k // 2 - 1] + s[k // 2]) / 2.0])
        elif method in ("pad", "ffill"):
            out.append([before[-1][1] if before else edge])
        elif method in ("backfill", "bfill"):
            out.append([after[0][1] if after else edge])
        elif method == "linear":
            if edge is not None:
                out.append([edge])
            else:
                (lo, a), (hi, b) = before[-1], after[0]
                out.append([a + (b - a) * (p - lo) / (hi - lo)])
        elif method == "nearest":
            if edge is not None:
                out.append([edge])
            else:
                (lo, a), (hi, b) = before[-1], after[0]
                if p - lo < hi - p:
                    out.append([a])
                elif p - lo > hi - p:
                    out.append([b])
                else:
                    out.append([a, b])  # tie: undecided
        elif method == "drift":
            # "drift/trend values by PolynomialTrendForecaster()": the value of the fitted
            # straight line at the missing position.  Two readings are accepted: the line
            # through the observed points only, or through the series pre-filled with
            # ffill/bfill (the heuristic documented for the forecaster parameter).
            cands = []
            if len(obs) >= 2:
                xs = [float(t) for t, _ in obs]
                xm, ym = mean(xs), mean(ov)
                b = math.fsum((x - xm) * (y - ym) for x, y in zip(xs, ov)) / \
                    math.fsum((x - xm) ** 2 for x in xs)
                cands.append(ym + b * (p - xm))
            else:
                cands.append(ov[0])
            if filled is None:
                filled = []
                for q in range(n):
                    bq = [x for t, x in obs if t <= q]
                    aq = [x for t, x in obs if t >= q]
                    filled.append(bq[-1] if bq else aq[0])
            if n >= 2:
                fit = polyfit(filled, 1)
                if fit is not None:
                    cands.append(fit[0][p])
            out.append(cands)
        elif method == "random":
            out.append("range")
        else:
            raise ValueError(method)
    return out
