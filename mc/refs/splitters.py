"""Integer-arithmetic reference model of the temporal CV splitters (C01).

Positions are zero-based.  A fold is (train positions, test positions, cutoff) where
cutoff is the position of the last training observation (-1 for an empty window).
``None`` means "the configuration is infeasible" (the statement only quantifies over
valid choices; what the code does there is judged by C20, here only that nothing
invalid is *yielded*).
"""


def window_folds(kind, n, fh, W, s, sww, I=None):
    """kind in {'sliding','expanding'}.  fh: sorted list of steps >= 1."""
    H = fh[-1]
    if W + H > n:
        return None
    if I is not None:
        if kind != "sliding" or not sww or I <= W or I + H > n:
            return None
    folds = []
    last = n - 1 - H  # last feasible cutoff
    if I is not None:
        c = I - 1
        folds.append((list(range(0, I)), [c + h for h in fh], c))
        c = c + s
    else:
        c = W - 1 if sww else -1
    while c <= last:
        if kind == "sliding":
            lo = max(0, c - W + 1)
        else:
            lo = 0
        folds.append((list(range(lo, c + 1)), [c + h for h in fh], c))
        c += s
    return folds


def single_fold(n, fh, W):
    H = fh[-1]
    c = n - 1 - H
    if c < 0:
        return None  # no training observation possible
    if W is not None and W > c + 1:
        return None  # window does not fit (F15: code clips silently; C20 judges)
    lo = 0 if W is None else c - W + 1
    return [(list(range(lo, c + 1)), [c + h for h in fh], c)]


def cutoff_folds(n, fh, W, cutoffs):
    H = fh[-1]
    cs = sorted(cutoffs)
    if cs[-1] + H > n - 1 or cs[0] < 0:
        return None
    return [(list(range(max(0, c - W + 1), c + 1)), [c + h for h in fh], c) for c in cs]


def tts_sizes(n, test_size, train_size):
    """scikit-learn's documented size rule for an unshuffled split (ints or fractions)."""
    import math

    def kind(v):
        return None if v is None else ("i" if isinstance(v, int) else "f")

    if test_size is None and train_size is None:
        test_size = 0.25
    kt, kr = kind(test_size), kind(train_size)
    if kt == "f":
        n_test = math.ceil(test_size * n)
    elif kt == "i":
        n_test = test_size
    if kr == "f":
        n_train = math.floor(train_size * n)
    elif kr == "i":
        n_train = train_size
    if train_size is None:
        n_train = n - n_test
    elif test_size is None:
        n_test = n - n_train
    if n_train + n_test > n or n_train <= 0 or n_test <= 0:
        return None
    return n_train, n_test
