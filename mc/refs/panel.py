"""Shared pieces of C16 / C17: deterministic tagged panels, the two containers, a canonical
row form for every kind of output, plain least squares, estimator menus.

Nothing here calls sktime's own converters: the nested DataFrame and the 3-D array are both
built from the same Python lists by the harness, so a converter bug cannot hide itself.
"""
import math

import numpy as np
import pandas as pd

L_DEFAULT = 24

# ------------------------------------------------------------------------------ data


def _pattern(k, c, t, L, fam):
    """class prototype k, column c, time t.  Classes differ in level, frequency, trend and
    (for odd k) a late bump, so interval means/slopes, spectra and SFA words all separate."""
    u = t / float(L)
    if fam % 3 == 0:
        v = 2.0 * k + (1.0 + 0.5 * k) * math.sin(2.0 * math.pi * (k + 1) * u + 0.3 * c)
        v += (1.5 - k) * u
    elif fam % 3 == 1:
        v = -1.5 * k + math.cos(2.0 * math.pi * (2 * k + 1) * u) * (1.0 + 0.25 * c)
        v += (k - 0.5) * 2.0 * u * u
    else:
        v = 1.0 * k * (1 if t < L // 2 else -1) + 0.8 * math.sin(2.0 * math.pi * (k + 2) * u)
        v += 0.6 * k * u + 0.2 * c
    if k % 2 == 1 and t >= (2 * L) // 3:
        v += 1.25
    return v


def _tag(i, c, t, fam):
    """small instance specific wiggle: every (instance, column) is a distinct, recognisable
    series; amplitude far below the class separation"""
    return 0.05 * (((t * 7 + i * 3 + c * 5 + fam) % 11) - 5) / 5.0 + 0.013 * ((i * 7) % 13 + 1) * math.sin(
        0.9 * t + i
    )


def series(i, weights, c, L, fam):
    """instance i as a convex mixture of class prototypes (weights: list over classes)"""
    out = []
    for t in range(L):
        v = 0.0
        for k, w in enumerate(weights):
            if w:
                v += w * _pattern(k, c, t, L, fam)
        out.append(v + _tag(i, c, t, fam))
    return out


def class_layout(n, n_classes, balanced, rare_k=0):
    """class index of each training instance, interleaved (never sorted by class).
    balanced: equal counts; False: class 0 gets three times the share of every other class;
    "rare": class rare_k occurs exactly once (at position 1), the others alternate."""
    if balanced == "rare":
        others = [k for k in range(n_classes) if k != rare_k]
        ks = [others[i % len(others)] for i in range(n)]
        ks[1] = rare_k
        return ks
    if balanced:
        return [i % n_classes for i in range(n)]
    # 3:1(:1) - cycle through a pattern 0,0,0,1 (,2)
    pat = [0, 1, 0, 0] if n_classes == 2 else [0, 1, 0, 2, 0]
    return [pat[i % len(pat)] for i in range(n)]


def train_panel(n, n_classes, balanced, n_cols, L, fam, rare_k=0):
    """-> (list[n][n_cols][L] of floats, class index list)"""
    ks = class_layout(n, n_classes, balanced, rare_k)
    X = []
    for i, k in enumerate(ks):
        w = [0.0] * n_classes
        w[k] = 1.0
        X.append([series(i, w, c, L, fam) for c in range(n_cols)])
    return X, ks


APPLY_MIX = [0.0, 0.38, 0.61, 1.0]


def apply_panel(m, n_classes, n_cols, L, fam):
    """m fresh instances (ids 100+j) lying between class prototypes, so that outputs of
    distinct instances differ (a permutation test on identical rows would be vacuous).
    -> (X list, nearest class index list)"""
    X, ks = [], []
    for j in range(m):
        a = j % n_classes
        b = (j + 1) % n_classes
        mix = APPLY_MIX[j % 4]
        w = [0.0] * n_classes
        w[a] += 1.0 - mix
        w[b] += mix
        X.append([series(100 + j, w, c, L, fam) for c in range(n_cols)])
        ks.append(a if mix < 0.5 else b)
    return X, ks


def regression_target(X, ks):
    """deterministic real target: class level + a little of the instance's own mean"""
    return [3.0 * k + 0.5 * (math.fsum(x[0]) / len(x[0])) + 0.1 * i
            for i, (x, k) in enumerate(zip(X, ks))]


# ------------------------------------------------------------------------ containers
def col_names(n_cols, naming):
    return ["%s_%d" % (naming, j) for j in range(n_cols)]


def to_numpy3d(X):
    return np.array(X, dtype=float)


def to_nested(X, naming="var"):
    n_cols = len(X[0])
    cols = col_names(n_cols, naming)
    data = {}
    for j, cname in enumerate(cols):
        data[cname] = [pd.Series(list(x[j]), dtype=float) for x in X]
    return pd.DataFrame(data, columns=cols)


def container(X, kind, naming="var"):
    if kind == "numpyF":  # Fortran-ordered 3D array (e.g. a transposed view handed in by a caller)
        return np.asfortranarray(to_numpy3d(X))
    return to_numpy3d(X) if kind == "numpy" else to_nested(X, naming)


def select(X, idx):
    return [X[i] for i in idx]


# ------------------------------------------------------------------- canonical output
def _cell(v):
    """a cell of an output row -> ('arr', float array) | ('map', sorted pairs) | ('obj', v)"""
    if isinstance(v, pd.Series):
        idx = v.index
        if isinstance(idx, pd.RangeIndex) or list(idx) == list(range(len(v))):
            return ("arr", np.asarray(v.values, dtype=float))
        return ("map", sorted(((repr(k), float(x)) for k, x in zip(idx, v.values))))
    if isinstance(v, dict):
        return ("map", sorted((repr(k), float(x)) for k, x in v.items()))
    if isinstance(v, np.ndarray):
        if v.dtype.kind in "fiub":
            return ("arr", np.asarray(v, dtype=float).ravel())
        return ("obj", [x for x in v.ravel().tolist()])
    if isinstance(v, (list, tuple)):
        try:
            return ("arr", np.asarray(v, dtype=float).ravel())
        except (TypeError, ValueError):
            return ("obj", list(v))
    if isinstance(v, (bool, np.bool_)):
        return ("arr", np.array([float(v)]))
    if isinstance(v, (int, float, np.integer, np.floating)):
        return ("arr", np.array([float(v)]))
    if isinstance(v, (str, np.str_)):
        return ("obj", str(v))
    return ("obj", repr(v))


def canon(out):
    """any transform / predict / predict_proba output -> list of rows (one per instance),
    every row a list of canonical cells.  Raises ValueError on shapes it cannot read."""
    if isinstance(out, pd.DataFrame):
        return [[_cell(out.iat[i, j]) for j in range(out.shape[1])]
                for i in range(out.shape[0])]
    if isinstance(out, pd.Series):
        return [[_cell(v)] for v in out.tolist()]
    if isinstance(out, np.ndarray):
        if out.ndim == 0:
            raise ValueError("0-d output")
        if out.ndim == 1:
            return [[_cell(v)] for v in out.tolist()]
        return [[_cell(np.asarray(out[i]))] for i in range(out.shape[0])]
    if isinstance(out, list):
        # SFA(return_pandas_data_series=False): [list of one bag per instance]
        if len(out) == 1 and isinstance(out[0], (list, tuple)):
            return [[_cell(v)] for v in out[0]]
        return [[_cell(v)] for v in out]
    if hasattr(out, "toarray"):
        return canon(np.asarray(out.toarray()))
    raise ValueError("unreadable output type %s" % type(out).__name__)


def cell_equal(a, b, rtol=1e-12, atol=1e-12):
    if a[0] != b[0]:
        return False
    if a[0] == "arr":
        if a[1].shape != b[1].shape:
            return False
        return bool(np.allclose(a[1], b[1], rtol=rtol, atol=atol, equal_nan=True))
    if a[0] == "map":
        if [k for k, _ in a[1]] != [k for k, _ in b[1]]:
            return False
        return bool(np.allclose([x for _, x in a[1]], [x for _, x in b[1]], rtol=rtol,
                                atol=atol, equal_nan=True))
    return a[1] == b[1]


def row_equal(r1, r2, rtol=1e-12, atol=1e-12):
    if len(r1) != len(r2):
        # a tabular DataFrame row (one scalar cell per column) against a 2-D ndarray row (one
        # array cell): same numbers in the same order count as the same result
        if all(c[0] == "arr" for c in r1) and all(c[0] == "arr" for c in r2) and \
                (len(r1) == 1 or len(r2) == 1):
            a = np.concatenate([c[1] for c in r1])
            b = np.concatenate([c[1] for c in r2])
            return cell_equal(("arr", a), ("arr", b), rtol, atol)
        return False
    return all(cell_equal(a, b, rtol, atol) for a, b in zip(r1, r2))


def row_brief(r):
    out = []
    for kind, v in r[:3]:
        if kind == "arr":
            out.append([round(float(x), 9) for x in v[:6]])
        elif kind == "map":
            out.append(v[:4])
        else:
            out.append(v)
    return out


def first_diff(rows_a, rows_b, rtol=1e-12, atol=1e-12):
    """index of the first differing row, -1 when equal, -2 when the counts differ"""
    if len(rows_a) != len(rows_b):
        return -2
    for i, (a, b) in enumerate(zip(rows_a, rows_b)):
        if not row_equal(a, b, rtol, atol):
            return i
    return -1


# ------------------------------------------------------------------ least squares etc.
def ls_slope(v):
    """ordinary least squares slope of v against time 1..n (textbook normal equations)"""
    n = len(v)
    if n < 2:
        return 0.0
    ts = [float(i + 1) for i in range(n)]
    tm = math.fsum(ts) / n
    vm = math.fsum(v) / n
    sxy = math.fsum((t - tm) * (x - vm) for t, x in zip(ts, v))
    sxx = math.fsum((t - tm) ** 2 for t in ts)
    return sxy / sxx


def mean_std_slope(v, ddof=0):
    n = len(v)
    m = math.fsum(v) / n
    var = math.fsum((x - m) ** 2 for x in v) / (n - ddof) if n - ddof > 0 else 0.0
    return m, math.sqrt(var), ls_slope(v)


def tsf_features(X1, intervals, ddof=0):
    """X1: list[n][L] (univariate). intervals: iterable of (start, end), end exclusive.
    -> float32 array (n, 3*len(intervals)) laid out mean, std, slope per interval."""
    rows = []
    for x in X1:
        r = []
        for (s, e) in intervals:
            r.extend(mean_std_slope(list(x[int(s):int(e)]), ddof))
        rows.append(r)
    return np.asarray(rows, dtype=np.float64).astype(np.float32)


# ---------------------------------------------------------------------- label menus
LABEL_SETS = {
    "01": [0, 1],
    "123": [1, 2, 3],
    "ab": ["a", "b"],
    "bac": ["b", "a", "c"],      # deliberately given unsorted
    "neg": [-1, 5, 20],
    "flt": [2.0, 7.0],           # float dtype, discrete values (fractional labels are
                                 # continuous targets by scikit-learn convention: outside C17)
}


# label sets used by dedicated cases only (not part of the full product)
LABEL_SETS_EXTRA = {"four": [47, 3, 20, 11], "fourstr": ["dog", "ant", "cat", "bee"],
                    # strings of unequal length; the label that sorts first is the shortest
                    "uneq2": ["yes", "no"], "uneq3": ["b", "cattle", "ant"]}  # four classes, listed unsorted


def label_array(labels, ks, as_series=False):
    """labels[k] for each class index; class index k maps to the k-th label *as listed*, so
    for the unsorted set the first-seen order differs from the sorted order."""
    vals = [labels[k] for k in ks]
    arr = np.array(vals)
    if as_series:
        return pd.Series(arr)
    return arr


def kind_of(arr):
    k = np.asarray(arr).dtype.kind
    if k in "iu":
        return "int"
    if k == "f":
        return "float"
    if k in "US":
        return "str"
    if k == "O":
        vs = list(np.asarray(arr).ravel())
        if vs and all(isinstance(v, str) for v in vs):
            return "str"
        if vs and all(isinstance(v, (int, np.integer)) and not isinstance(v, bool) for v in vs):
            return "int"
        if vs and all(isinstance(v, (float, np.floating)) for v in vs):
            return "float"
    return "other:" + k


# ------------------------------------------------------------------ estimator menus
def make_classifier(name, rs, opt=0, n_jobs=None):
    """name -> unfitted classifier; small ensembles, explicit random_state everywhere.
    opt selects a second parameterisation where one exists (thorough tier)."""
    nj = {} if n_jobs is None else {"n_jobs": n_jobs}
    if name == "TSF":
        from sktime.classification.interval_based import TimeSeriesForestClassifier
        return TimeSeriesForestClassifier(n_estimators=(4, 7)[opt], min_interval=(3, 5)[opt],
                                          random_state=rs, **nj)
    if name == "RISE":
        from sktime.classification.interval_based import RandomIntervalSpectralForest
        return RandomIntervalSpectralForest(n_estimators=(4, 6)[opt], min_interval=(8, 10)[opt],
                                            acf_lag=(6, 4)[opt], acf_min_values=(2, 3)[opt],
                                            random_state=rs, **nj)
    if name == "STSF":
        from sktime.classification.interval_based._stsf import SupervisedTimeSeriesForest
        return SupervisedTimeSeriesForest(n_estimators=(3, 5)[opt], random_state=rs, **nj)
    if name == "BOSS":
        from sktime.classification.dictionary_based import BOSSEnsemble
        return BOSSEnsemble(min_window=(16, 12)[opt], max_ensemble_size=(5, 8)[opt],
                            random_state=rs)
    if name == "IBOSS":
        from sktime.classification.dictionary_based import IndividualBOSS
        return IndividualBOSS(window_size=(10, 12)[opt], word_length=(8, 6)[opt],
                              norm=not opt, random_state=rs)
    if name == "CBOSS":
        from sktime.classification.dictionary_based import ContractableBOSS
        return ContractableBOSS(n_parameter_samples=(6, 10)[opt], max_ensemble_size=(3, 5)[opt],
                                min_window=(16, 12)[opt], random_state=rs)
    if name == "MUSE":
        from sktime.classification.dictionary_based import MUSE
        return MUSE(random_state=rs, window_inc=(4, 2)[opt], bigrams=not opt)
    if name == "ITDE":
        from sktime.classification.dictionary_based import IndividualTDE
        return IndividualTDE(random_state=rs, window_size=(10, 8)[opt], word_length=(8, 6)[opt])
    if name == "CENS":
        from sktime.classification.compose import ColumnEnsembleClassifier
        from sktime.classification.interval_based import (
            RandomIntervalSpectralForest, TimeSeriesForestClassifier)
        second = (TimeSeriesForestClassifier(n_estimators=3, random_state=rs + 11) if opt != 1
                  else RandomIntervalSpectralForest(n_estimators=3, min_interval=8, acf_lag=6,
                                                    acf_min_values=2, random_state=rs + 11))
        ests = [("m0", TimeSeriesForestClassifier(n_estimators=4, random_state=rs), [0]),
                ("m1", second, [1])]
        if opt == 2:  # an entry that is skipped at fit
            ests.append(("m2", "drop", [0]))
        if opt == 3:  # the second column is handled by an estimator given as remainder
            return ColumnEnsembleClassifier(estimators=ests[:1], remainder=second)
        return ColumnEnsembleClassifier(estimators=ests)
    raise KeyError(name)


CLASSIFIERS = ["TSF", "RISE", "STSF", "IBOSS", "BOSS", "CBOSS", "MUSE", "CENS", "ITDE"]
# number of columns each classifier is run with
CLF_COLS = {"TSF": [1], "RISE": [1], "STSF": [1], "IBOSS": [1], "BOSS": [1], "CBOSS": [1],
            "MUSE": [1, 2], "CENS": [2], "ITDE": [1, 2]}


def make_regressor(rs, opt=0, n_jobs=None):
    from sktime.regression.interval_based import TimeSeriesForestRegressor
    nj = {} if n_jobs is None else {"n_jobs": n_jobs}
    return TimeSeriesForestRegressor(n_estimators=(4, 7)[opt], min_interval=(3, 5)[opt],
                                     random_state=rs, **nj)
