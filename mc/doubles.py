"""Harness-side test doubles (DESIGN.md section 3.6).  All are subclasses of public base
classes; none touches repository objects.  Import only after compat.install()."""
import numpy as np
import pandas as pd
from sklearn.base import BaseEstimator as SkBase
from sklearn.base import RegressorMixin

from sktime.forecasting.base._sktime import _OptionalForecastingHorizonMixin
from sktime.forecasting.base._sktime import _SktimeForecaster
from sktime.regression.base import BaseRegressor
from sktime.transformations.base import _SeriesToSeriesTransformer

_TOKEN = [0]


def reset_tokens():
    _TOKEN[0] = 0


def fresh_token():
    _TOKEN[0] += 1
    return 5000.5 + _TOKEN[0]


class RecRegressor(RegressorMixin, SkBase):
    """tabular regressor that records copies of what it is given and answers fresh tokens"""

    def __init__(self, tag="r"):
        self.tag = tag

    def fit(self, X, y):
        self.fit_X_ = np.array(X, dtype=float, copy=True)
        self.fit_y_ = np.array(y, dtype=float, copy=True)
        self.pred_X_ = []
        self.pred_out_ = []
        return self

    def predict(self, X):
        X = np.array(X, dtype=float, copy=True)
        self.pred_X_.append(X)
        n_out = 1 if self.fit_y_.ndim == 1 else self.fit_y_.shape[1]
        out = np.array([[fresh_token() for _ in range(n_out)] for _ in range(X.shape[0])])
        self.pred_out_.append(out.copy())
        return out[:, 0] if self.fit_y_.ndim == 1 else out


class RecTSRegressor(BaseRegressor):
    """time-series regressor (3-D input) with the same recording behaviour"""

    def __init__(self, tag="ts"):
        self.tag = tag
        super(RecTSRegressor, self).__init__()

    def fit(self, X, y):
        self.fit_X_ = np.array(X, dtype=float, copy=True)
        self.fit_y_ = np.array(y, dtype=float, copy=True)
        self.pred_X_ = []
        self.pred_out_ = []
        self._is_fitted = True
        return self

    def predict(self, X):
        X = np.array(X, dtype=float, copy=True)
        self.pred_X_.append(X)
        n_out = 1 if self.fit_y_.ndim == 1 else self.fit_y_.shape[1]
        out = np.array([[fresh_token() for _ in range(n_out)] for _ in range(X.shape[0])])
        self.pred_out_.append(out.copy())
        return out[:, 0] if self.fit_y_.ndim == 1 else out


class LinearExact(RegressorMixin, SkBase):
    """closed-form least squares with intercept (lstsq), deterministic and refit-stable"""

    def __init__(self, ridge=0.0):
        self.ridge = ridge

    def fit(self, X, y):
        X = np.asarray(X, dtype=float)
        if X.ndim == 3:
            X = X.reshape(X.shape[0], -1)
        A = np.column_stack([np.ones(len(X)), X])
        self.coef_, *_ = np.linalg.lstsq(A, np.asarray(y, dtype=float), rcond=None)
        return self

    def predict(self, X):
        X = np.asarray(X, dtype=float)
        if X.ndim == 3:
            X = X.reshape(X.shape[0], -1)
        A = np.column_stack([np.ones(len(X)), X])
        return A @ self.coef_


LOG = []  # global call log of recording forecasters / transformers: (tag, op, payload)


def reset_log():
    del LOG[:]


def _ser(y):
    return None if y is None else (list(y.index), [float(v) for v in np.asarray(y.values).ravel()])


class RecForecaster(_OptionalForecastingHorizonMixin, _SktimeForecaster):
    """Recording forecaster: logs the time stamps/values it is given.

    Forecast for absolute time t made from memory y (everything seen so far, later wins):
        strategy 'last' : value at the cutoff + 0.001 * (t - cutoff) + offset
        strategy 'mean' : mean of memory + offset
    so forecasts are cheap, deterministic, distinct per member (offset) and depend on exactly
    what the forecaster has been given.
    """

    def __init__(self, tag="f", strategy="last", offset=0.0):
        self.tag = tag
        self.strategy = strategy
        self.offset = offset
        super(RecForecaster, self).__init__()

    def fit(self, y, X=None, fh=None):
        LOG.append((self.tag, "fit", _ser(y), None if X is None else list(X.index),
                    None if fh is None else "fh"))
        self._set_y_X(y, X)
        self._set_fh(fh)
        self.n_fits_ = getattr(self, "n_fits_", 0) + 1
        self.fitted_on_ = _ser(y)
        self._is_fitted = True
        return self

    def update(self, y, X=None, update_params=True):
        self.check_is_fitted()
        LOG.append((self.tag, "update", _ser(y), None if X is None else list(X.index),
                    bool(update_params)))
        self._update_y_X(y, X)
        if update_params:
            self.fitted_on_ = _ser(self._y)
        return self

    def _predict(self, fh, X=None, return_pred_int=False, alpha=None):
        if return_pred_int:
            raise NotImplementedError()
        idx = fh.to_absolute(self.cutoff).to_pandas()
        rel = fh.to_relative(self.cutoff).to_pandas()
        LOG.append((self.tag, "predict", list(idx), self.cutoff, None))
        if self.strategy == "last":
            base = float(self._y.iloc[-1])
            vals = [base + 0.001 * int(r) + self.offset for r in rel]
        else:
            m = float(np.mean(self._y.values))
            vals = [m + self.offset for _ in rel]
        return pd.Series(vals, index=idx)


class RecForecasterLazy(RecForecaster):
    """recording forecaster whose ``update`` does NOT refit by default (like the tuners and the
    online ensemble) and whose forecast is the mean of the data of its last parameter fit:
    a caller that forces ``update_params=True`` changes the forecasts"""

    def update(self, y, X=None, update_params=False):
        return super(RecForecasterLazy, self).update(y, X, update_params=update_params)

    def _predict(self, fh, X=None, return_pred_int=False, alpha=None):
        if return_pred_int:
            raise NotImplementedError()
        idx = fh.to_absolute(self.cutoff).to_pandas()
        rel = fh.to_relative(self.cutoff).to_pandas()
        LOG.append((self.tag, "predict", list(idx), self.cutoff, None))
        m = float(np.mean(self.fitted_on_[1]))
        return pd.Series([m + 0.001 * int(r) + self.offset for r in rel], index=idx)


class RecTransformer(_SeriesToSeriesTransformer):
    """invertible affine series transformer z -> a*z + b that logs what it is given"""

    _tags = {"transform-returns-same-time-index": True, "univariate-only": True}

    def __init__(self, tag="t", a=2.0, b=1.0):
        self.tag = tag
        self.a = a
        self.b = b
        super(RecTransformer, self).__init__()

    def fit(self, Z, X=None):
        LOG.append((self.tag, "t.fit", _ser(Z), None, None))
        self._is_fitted = True
        return self

    def transform(self, Z, X=None):
        self.check_is_fitted()
        LOG.append((self.tag, "t.transform", _ser(Z), None, None))
        return Z * self.a + self.b

    def inverse_transform(self, Z, X=None):
        self.check_is_fitted()
        LOG.append((self.tag, "t.inverse", _ser(Z), None, None))
        return (Z - self.b) / self.a

    def update(self, Z, X=None, update_params=False):
        self.check_is_fitted()
        LOG.append((self.tag, "t.update", _ser(Z), None, None))
        return self
