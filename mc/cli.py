"""bin/check <ID> [--tier quick|thorough] [--replay FILE]"""
import argparse
import importlib
import os
import subprocess
import sys


def main(argv=None):
    ap = argparse.ArgumentParser()
    ap.add_argument("id")
    ap.add_argument("--tier", default=os.environ.get("VERIF_TIER", "quick"))
    ap.add_argument("--replay")
    ap.add_argument("--budget", type=float, default=None)
    a = ap.parse_args(argv)
    seed = int(os.environ.get("VERIF_SEED", "0") or 0)
    os.environ.setdefault("SKTIME_VERIF", "1")
    from . import compat

    try:
        compat.install()
        mod = importlib.import_module("mc.checks." + a.id.lower())
    except Exception:
        import traceback

        traceback.print_exc()
        print("HARNESS-ERROR: cannot import the repository under test or the check")
        return 2
    from . import core

    if a.replay:
        return core.replay(mod, a.replay)
    rc = core.run_check(mod, a.tier, seed, a.budget)
    evp = os.path.join(core.OUT, "evidence", mod.ID + ".json")
    v = subprocess.run(
        ["python3-vt", os.path.join(core.VERIF, "mc", "validate_evidence.py"), evp],
        capture_output=True, text=True)
    if v.returncode != 0:
        print("HARNESS-ERROR: evidence does not validate:", v.stdout, v.stderr)
        return 2 if rc == 0 else rc
    return rc


if __name__ == "__main__":
    sys.exit(main())
