"""Builds forecasters / series transformers from JSON-serialisable specs (shared by C03, C09,
C10, C12, C20).  Import only after compat.install()."""


def build_t(spec):
    from sklearn.preprocessing import MinMaxScaler, StandardScaler
    from sktime.forecasting.trend import PolynomialTrendForecaster
    from sktime.transformations.series.adapt import TabularToSeriesAdaptor
    from sktime.transformations.series.boxcox import BoxCoxTransformer, LogTransformer
    from sktime.transformations.series.compose import OptionalPassthrough
    from sktime.transformations.series.detrend import (
        ConditionalDeseasonalizer, Deseasonalizer, Detrender)
    from sktime.transformations.series.impute import Imputer
    from . import doubles

    k = spec[0]
    if k == "detrend":
        return Detrender(PolynomialTrendForecaster(degree=spec[1]))
    if k == "deseason":
        return Deseasonalizer(sp=spec[1], model=spec[2])
    if k == "cdeseason":
        return ConditionalDeseasonalizer(sp=spec[1], model=spec[2],
                                         seasonality_test=_always if spec[3] else _never)
    if k == "log":
        return LogTransformer()
    if k == "boxcox":
        return BoxCoxTransformer(method=spec[1] if len(spec) > 1 else "mle")
    if k == "std":
        return TabularToSeriesAdaptor(StandardScaler())
    if k == "minmax":
        return TabularToSeriesAdaptor(MinMaxScaler())
    if k == "imputer":
        meth = spec[1] if len(spec) > 1 else "drift"
        return Imputer(method=meth, value=1.0 if meth == "constant" else None)
    if k == "opt":
        return OptionalPassthrough(build_t(spec[1]), passthrough=spec[2])
    if k == "rect":
        return doubles.RecTransformer(tag=spec[1], a=spec[2], b=spec[3])
    if k == "ttfT":
        # a pipeline used as a transformer step (its final forecaster is not used by transform)
        from sktime.forecasting.compose import TransformedTargetForecaster
        from sktime.forecasting.naive import NaiveForecaster

        return TransformedTargetForecaster(
            [("t%d" % i, build_t(s)) for i, s in enumerate(spec[1])] + [("f", NaiveForecaster())])
    raise ValueError(spec)


def _always(y, sp=None):
    return True


def _never(y, sp=None):
    return False


def build(spec):
    from sktime.forecasting.compose import (
        EnsembleForecaster, MultiplexForecaster, StackingForecaster,
        TransformedTargetForecaster, make_reduction)
    from sktime.forecasting.ets import AutoETS
    from sktime.forecasting.exp_smoothing import ExponentialSmoothing
    from sktime.forecasting.model_selection import (
        ForecastingGridSearchCV, SlidingWindowSplitter)
    from sktime.forecasting.naive import NaiveForecaster
    from sktime.forecasting.theta import ThetaForecaster
    from sktime.forecasting.trend import PolynomialTrendForecaster
    from . import doubles

    k = spec[0]
    if k == "naive":
        return NaiveForecaster(strategy=spec[1], sp=spec[2] if len(spec) > 2 else 1,
                               window_length=spec[3] if len(spec) > 3 else None)
    if k == "poly":
        return PolynomialTrendForecaster(degree=spec[1],
                                         with_intercept=spec[2] if len(spec) > 2 else True)
    if k == "es":
        return ExponentialSmoothing(trend=spec[1] if len(spec) > 1 else None)
    if k == "ets":
        return AutoETS(auto=False)
    if k == "theta":
        return ThetaForecaster(sp=spec[1] if len(spec) > 1 else 1)
    if k == "red":
        reg = {"lin": doubles.LinearExact, "rec": doubles.RecRegressor,
               "rects": doubles.RecTSRegressor}[spec[3]]()
        return make_reduction(reg, strategy=spec[1], window_length=spec[2])
    if k == "rec":
        return doubles.RecForecaster(tag=spec[1], strategy=spec[2], offset=spec[3])
    if k == "ens":
        return EnsembleForecaster([("m%d" % i, build(s)) for i, s in enumerate(spec[2])],
                                  aggfunc=spec[1])
    if k == "ttf":
        steps = [("t%d" % i, build_t(s)) for i, s in enumerate(spec[1])]
        return TransformedTargetForecaster(steps + [("f", build(spec[2]))])
    if k == "stack":
        reg = doubles.LinearExact() if len(spec) < 3 or spec[2] == "lin" else doubles.RecRegressor()
        return StackingForecaster([("m%d" % i, build(s)) for i, s in enumerate(spec[1])],
                                  final_regressor=reg)
    if k == "mux":
        return MultiplexForecaster([("m%d" % i, build(s)) for i, s in enumerate(spec[1])],
                                   selected_forecaster="m%d" % spec[2])
    if k == "grid":
        cv = SlidingWindowSplitter(fh=[1], window_length=6, step_length=2)
        return ForecastingGridSearchCV(build(spec[1]), cv=cv, param_grid=spec[2], refit=True)
    raise ValueError(spec)


def needs_fh_at_fit(spec):
    k = spec[0]
    if k == "red":
        return spec[1] in ("direct", "multioutput", "dirrec")
    if k == "stack":
        return True
    if k == "ens":
        return any(needs_fh_at_fit(s) for s in spec[2])
    if k == "ttf":
        return needs_fh_at_fit(spec[2])
    if k == "mux":
        return needs_fh_at_fit(spec[1][spec[2]])
    if k == "grid":
        return needs_fh_at_fit(spec[1])
    return False


def is_slow(spec):
    """statsmodels optimiser inside"""
    k = spec[0]
    if k in ("es", "ets", "theta"):
        return True
    if k in ("ens", "stack"):
        return any(is_slow(s) for s in spec[-1] if isinstance(s, list)) if k == "ens" else \
            any(is_slow(s) for s in spec[1])
    if k == "ttf":
        return is_slow(spec[2])
    if k == "mux":
        return any(is_slow(s) for s in spec[1])
    if k == "grid":
        return is_slow(spec[1])
    return False


# ------------------------------------------------------------------------------ menus
BASIC = [
    ["naive", "last"], ["naive", "mean"], ["naive", "drift"], ["naive", "last", 3],
    ["naive", "mean", 3, 6], ["naive", "mean", 1, 4], ["poly", 1], ["poly", 2],
    ["poly", 2, False], ["poly", 3, False],
    ["red", "recursive", 3, "lin"], ["red", "direct", 3, "lin"],
    ["red", "multioutput", 2, "lin"], ["red", "dirrec", 2, "lin"],
]
SM = [["es"], ["es", "add"], ["ets"], ["theta", 1], ["theta", 3]]
COMPOSITES = [
    ["ens", "mean", [["naive", "last"], ["poly", 1]]],
    ["ens", "median", [["naive", "last"], ["naive", "mean"], ["naive", "drift"]]],
    ["ttf", [["detrend", 1]], ["naive", "last"]],
    ["ttf", [["deseason", 3, "additive"]], ["naive", "drift"]],
    ["ttf", [["log"]], ["poly", 1]],
    ["ttf", [["deseason", 2, "multiplicative"], ["detrend", 1]], ["naive", "mean"]],
    ["ttf", [["std"]], ["red", "recursive", 3, "lin"]],
    ["stack", [["naive", "last"], ["poly", 1]]],
    ["mux", [["naive", "last"], ["poly", 1], ["naive", "drift"]], 1],
    ["grid", ["naive", "last"], {"strategy": ["last", "mean", "drift"]}],
]
DEPTH2 = [
    ["ens", "mean", [["ttf", [["detrend", 1]], ["naive", "last"]], ["naive", "drift"]]],
    ["ttf", [["log"]], ["ens", "mean", [["naive", "last"], ["poly", 1]]]],
    ["mux", [["ens", "max", [["naive", "last"], ["poly", 2]]], ["naive", "mean"]], 0],
    ["grid", ["ttf", [["deseason", 1, "additive"]], ["naive", "last"]],
     {"t0__sp": [1, 3], "f__strategy": ["last", "drift"]}],
    ["stack", [["ttf", [["detrend", 1]], ["naive", "mean"]], ["naive", "last"]]],
    ["ens", "min", [["mux", [["naive", "last"], ["poly", 1]], 0], ["red", "recursive", 2, "lin"]]],
    ["ttf", [["detrend", 1]], ["red", "direct", 3, "lin"]],
    ["ens", "mean", [["stack", [["naive", "last"], ["naive", "drift"]]], ["poly", 1]]],
]
