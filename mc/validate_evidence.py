import json
import os
import sys

import jsonschema

here = os.path.dirname(os.path.abspath(__file__))
schema = json.load(open(os.path.join(here, "EVIDENCE.schema.json")))
for p in sys.argv[1:]:
    ev = json.load(open(p))
    jsonschema.validate(ev, schema)
print("ok")
