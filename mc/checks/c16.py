"""C16 - fitted panel estimators treat instances independently and ignore the container (E1).

One case = (estimator configuration, data configuration, variant group).  A variant group is
(container at fit, container at apply, naming of the nested columns, "perm" | "sub"):
"perm" applies the fitted estimator to ALL 24 orderings of the 4 apply instances, "sub" to all
4 singletons and all 6 pairs.  Every output is reduced to a canonical list of rows
(mc/refs/panel.py) and compared with the rows of the batch output.
"""
import itertools

import numpy as np

from ..core import Result, call
from ..refs import panel as P

ID = "C16"
LEVEL = "exploration"
ANCHORS = [
    "sktime/transformations/panel/*.py",
    "sktime/transformations/panel/dictionary_based/*.py",
    "sktime/transformations/panel/summarize/_extract.py",
    "sktime/transformations/panel/compose.py",
    "sktime/classification/base.py",
    "sktime/classification/interval_based/_tsf.py",
    "sktime/classification/interval_based/_rise.py",
    "sktime/classification/interval_based/_stsf.py",
    "sktime/classification/dictionary_based/_boss.py",
    "sktime/classification/dictionary_based/_cboss.py",
    "sktime/classification/dictionary_based/_muse.py",
    "sktime/classification/compose/_column_ensemble.py",
    "sktime/regression/interval_based/_tsf.py",
    "sktime/series_as_features/base/estimators/interval_based/_tsf.py",
    "sktime/utils/validation/panel.py",
    "sktime/utils/data_processing.py",
]
RULE = (
    "full product: estimator menu (26 panel-transformer configurations incl. 2 row transformers, "
    "9 classifiers (incl. IndividualTDE, 1 and 2 columns), TSF regressor) x supported column counts (1, and 2 where multivariate is "
    "supported) x value family (quick: 2 of 3 families chosen by VERIF_SEED; thorough: all 3, a "
    "second classifier parameterisation and a second apply set made of training instances) x "
    "container at fit {nested, numpy} x container at apply {nested, numpy} x nested column naming "
    "{var_i, dim_i} (only where a nested container occurs) x group {perm: all 24 orderings of "
    "the 4 apply instances; sub: all 4 singletons + all 6 pairs}; plus a sweep of the integer "
    "parameter of PAA (2..9), SlidingWindowSegmenter (1..6), IntervalSegmenter, SlopeTransformer "
    "and TSInterpolator over series of 24 and 17 points. Training panel: 12 instances, "
    "24 time points (MUSE: 16 in the quick tier), 2 interleaved classes, deterministic tagged values, random_state fixed to an "
    "int. The seed also rotates whether y is an ndarray or a pd.Series. A case is non-trivial "
    "when the batch output has at least two distinct rows; distinct = distinct case tuple."
)
ASSUMPTIONS = [
    "equal-length series only; no missing values",
    "values are compared (rtol 1e-12), not the Python type of the output container: a tabular "
    "DataFrame and a 2-D ndarray with the same numbers count as the same result (Tabularizer "
    "returns an ndarray for ndarray input); bags of words are compared as word->count maps",
    "classifier.predict is compared as well, except for instances whose batch probabilities "
    "tie for the maximum: the statement (with C17) allows any arg-max label there and "
    "BOSSEnsemble/ContractableBOSS break such ties with a position dependent RNG draw",
    "every stochastic estimator gets an explicit integer random_state (with None the result is "
    "not a function of the instance at all)",
    "excluded, not runnable here (third-party drift / missing binaries, unrelated to the "
    "property): ComposableTimeSeriesForestClassifier/Regressor (abstract under scikit-learn "
    "1.7), TemporalDictionaryEnsemble and WEASEL (scikit-learn parameter "
    "validation), KNN/DTW/ElasticEnsemble/ProximityForest/ShapeDTW (Cython distances), shapelet "
    "transform/STC/MrSEQL, ROCKET family (pure-Python numba stub far too slow), "
    "TSFresh*/Catch22* (soft dependencies), sktime ColumnTransformer (scikit-learn 1.7 "
    "ColumnTransformer._iter signature changed), CanonicalIntervalForest/DrCIF/HIVE-COTE "
    "(catch22)",
    "row transformers are run with CosineTransformer / MeanTransformer; wrapping a "
    "univariate-only series transformer (Detrender, ACF, BoxCox, Hampel, TabularToSeriesAdaptor) "
    "fails inside sktime 0.6.0 for every input alike (2-D slice handed to check_series) and is "
    "outside this property",
    "FittedParamExtractor is run with ExponentialSmoothing(trend='add') (PolynomialTrend/"
    "Naive forecasters do not implement get_fitted_params)",
]

L = P.L_DEFAULT
N_TRAIN = 12


# ------------------------------------------------------------------------------ menu
def _transformers():
    from sktime.forecasting.exp_smoothing import ExponentialSmoothing
    from sktime.transformations.panel.compose import (
        ColumnConcatenator, SeriesToPrimitivesRowTransformer, SeriesToSeriesRowTransformer)
    from sktime.transformations.panel.dictionary_based import PAA, SAX, SFA
    from sktime.transformations.panel.dwt import DWTTransformer
    from sktime.transformations.panel.hog1d import HOG1DTransformer
    from sktime.transformations.panel.interpolate import TSInterpolator
    from sktime.transformations.panel.matrix_profile import MatrixProfile
    from sktime.transformations.panel.padder import PaddingTransformer
    from sktime.transformations.panel.pca import PCATransformer
    from sktime.transformations.panel.reduce import Tabularizer
    from sktime.transformations.panel.segment import (
        IntervalSegmenter, RandomIntervalSegmenter, SlidingWindowSegmenter)
    from sktime.transformations.panel.slope import SlopeTransformer
    from sktime.transformations.panel.summarize import (
        DerivativeSlopeTransformer, FittedParamExtractor, PlateauFinder,
        RandomIntervalFeatureExtractor)
    from sktime.transformations.panel.truncation import TruncationTransformer
    from sktime.transformations.series.cos import CosineTransformer
    from sktime.transformations.series.summarize import MeanTransformer

    return {
        "Padder": lambda: PaddingTransformer(),
        "Padder30": lambda: PaddingTransformer(pad_length=30, fill_value=-7),
        "Trunc": lambda: TruncationTransformer(),
        "Trunc5_15": lambda: TruncationTransformer(lower=5, upper=15),
        "Interp": lambda: TSInterpolator(10),
        "Tabularizer": lambda: Tabularizer(),
        "ColConcat": lambda: ColumnConcatenator(),
        "IntervalSeg": lambda: IntervalSegmenter(3),
        "RandIntervalSeg": lambda: RandomIntervalSegmenter(n_intervals=3, random_state=1),
        "SlidingWin": lambda: SlidingWindowSegmenter(5),
        "PAA": lambda: PAA(5),
        "SAX": lambda: SAX(word_length=4, alphabet_size=4, window_size=12),
        "SFA": lambda: SFA(word_length=4, alphabet_size=4, window_size=12),
        "SFA_pd": lambda: SFA(word_length=6, alphabet_size=4, window_size=10, norm=True,
                              bigrams=True, return_pandas_data_series=True),
        "Plateau": lambda: PlateauFinder(value=0.0, min_length=1),
        "DerivSlope": lambda: DerivativeSlopeTransformer(),
        "RIFE": lambda: RandomIntervalFeatureExtractor(
            n_intervals=3, features=[np.mean, np.std], random_state=2),
        "RIFE_noaxis": lambda: RandomIntervalFeatureExtractor(
            n_intervals=2, features=[P.ls_slope], random_state=2),
        "FittedParam": lambda: FittedParamExtractor(
            ExponentialSmoothing(trend="add"), ["initial_level", "initial_slope"]),
        "Slope": lambda: SlopeTransformer(4),
        "DWT": lambda: DWTTransformer(2),
        "HOG1D": lambda: HOG1DTransformer(),
        "PCA": lambda: PCATransformer(n_components=3),
        "MatrixProfile": lambda: MatrixProfile(m=6),
        "RowCos": lambda: SeriesToSeriesRowTransformer(CosineTransformer()),
        "RowMean": lambda: SeriesToPrimitivesRowTransformer(MeanTransformer()),
    }


# name -> column counts it is run with
T_COLS = {
    "Padder": [1, 2], "Padder30": [2], "Trunc": [1, 2], "Trunc5_15": [1], "Interp": [1, 2],
    "Tabularizer": [1, 2], "ColConcat": [1, 2], "IntervalSeg": [1], "RandIntervalSeg": [1],
    "SlidingWin": [1], "PAA": [1, 2], "SAX": [1], "SFA": [1], "SFA_pd": [1], "Plateau": [1],
    "DerivSlope": [1, 2], "RIFE": [1], "RIFE_noaxis": [1], "FittedParam": [1],
    "Slope": [1, 2], "DWT": [1, 2], "HOG1D": [1, 2], "PCA": [1], "MatrixProfile": [1],
    "RowCos": [1, 2], "RowMean": [1, 2],
}
CONTAINERS = [("nested", "nested", "var"), ("nested", "nested", "dim"),
              ("nested", "numpy", "var"), ("nested", "numpy", "dim"),
              ("numpy", "nested", "var"), ("numpy", "nested", "dim"),
              ("numpy", "numpy", "var"), ("nested", "numpyF", "var"), ("numpyF", "numpyF", "var")]
PERMS = [list(p) for p in itertools.permutations(range(4))]
SUBS = [[i] for i in range(4)] + [list(c) for c in itertools.combinations(range(4), 2)]


def _menu(tier):
    """(kind, name, cols, opt)"""
    out = []
    for name, cols in T_COLS.items():
        for nc in cols:
            out.append(("trf", name, nc, 0))
    for name in P.CLASSIFIERS:
        for nc in P.CLF_COLS[name]:
            out.append(("clf", name, nc, 0))
            if tier != "quick":
                out.append(("clf", name, nc, 1))
    out.append(("reg", "TSFR", 1, 0))
    if tier != "quick":
        out.append(("reg", "TSFR", 1, 1))
    return out


def gen_cases(tier, seed):
    for c in _sweep_cases(tier, seed):
        yield c
    fams = [seed % 3, (seed + 1) % 3] if tier == "quick" else [0, 1, 2]
    applysets = ["fresh"] if tier == "quick" else ["fresh", "train"]
    i = 0
    # cheap transformers first, then forests, then the dictionary classifiers
    for kind, name, nc, opt in _menu(tier):
        for fam in fams:
            for aset in applysets:
                for group in ("sub", "perm"):
                    for fitc, appc, naming in CONTAINERS:
                        i += 1
                        yield dict(kind=kind, est=name, cols=nc, opt=opt, fam=fam, aset=aset,
                                   L=16 if (name == "MUSE" and tier == "quick") else L,
                                   fitc=fitc, appc=appc, naming=naming, group=group, rs=0,
                                   yseries=bool((i + seed) % 2))
                    if name in ("Padder", "Padder30", "Trunc", "Trunc5_15", "Interp"):
                        # panels of unequal-length series (nested frames only)
                        i += 1
                        yield dict(kind=kind, est=name, cols=nc, opt=opt, fam=fam, aset=aset, L=L,
                                   fitc="nested", appc="nested", naming="var", group=group, rs=0,
                                   yseries=False, uneq=True)


PARAM_SWEEP = {"PAA": (2, 3, 4, 6, 7, 9), "SlidingWin": (1, 2, 3, 4, 6), "IntervalSeg": (2, 4, 5),
               "Slope": (2, 3, 5, 6), "Interp": (7, 30)}


def _sweep_cases(tier, seed):
    """the integer parameter of the parameterised transformers x two series lengths (one of
    them not a multiple of most parameters)"""
    i = 0
    for base, ks in PARAM_SWEEP.items():
        for k in ks:
            for Lc in (L, 17):
                for group in ("sub", "perm"):
                    for fitc, appc in (("nested", "nested"), ("nested", "numpy"), ("numpy", "numpy")):
                        i += 1
                        yield dict(kind="trf", est="%s@%d" % (base, k), cols=1, opt=0,
                                   fam=(seed + i) % 3, aset="fresh", L=Lc, fitc=fitc, appc=appc,
                                   naming="var", group=group, rs=0, yseries=False)


# --------------------------------------------------------------------------- running
def _param_transformer(name):
    """'PAA@7' -> PAA(7): the integer parameter of the parameterised cheap transformers"""
    from sktime.transformations.panel.dictionary_based import PAA
    from sktime.transformations.panel.interpolate import TSInterpolator
    from sktime.transformations.panel.segment import IntervalSegmenter, SlidingWindowSegmenter
    from sktime.transformations.panel.slope import SlopeTransformer

    base, k = name.split("@")
    return {"PAA": PAA, "SlidingWin": SlidingWindowSegmenter, "IntervalSeg": IntervalSegmenter,
            "Slope": SlopeTransformer, "Interp": TSInterpolator}[base](int(k))


def _build(case):
    kind, name = case["kind"], case["est"]
    if kind == "trf" and "@" in name:
        return _param_transformer(name)
    if kind == "trf":
        return _transformers()[name]()
    if kind == "clf":
        return P.make_classifier(name, case["rs"], case["opt"])
    return P.make_regressor(case["rs"], case["opt"])


def _apply(case, est, Xc):
    """-> dict(output name -> canonical rows)"""
    kind = case["kind"]
    if kind == "trf":
        return {"out": P.canon(est.transform(Xc))}
    if kind == "clf":
        return {"out": P.canon(est.predict_proba(Xc)), "predict": P.canon(est.predict(Xc))}
    return {"out": P.canon(est.predict(Xc))}


def _tie_rows(proba_rows):
    """indices of instances whose probabilities tie for the maximum"""
    ties = set()
    for i, r in enumerate(proba_rows):
        v = r[0][1]
        if r[0][0] == "arr" and len(v) and np.sum(v >= np.max(v) - 1e-12) > 1:
            ties.add(i)
    return ties


def run_case(case):
    import warnings

    warnings.filterwarnings("ignore")
    res = Result()
    name = case["est"] + ("" if not case.get("opt") else "#1")
    key = case["est"]
    nc, fam = case["cols"], case["fam"]
    naming, fitc, appc = case["naming"], case["fitc"], case["appc"]
    Lc = case.get("L", L)
    X, ks = P.train_panel(N_TRAIN, 2, True, nc, Lc, fam)
    if case["kind"] == "reg":
        y = np.array(P.regression_target(X, ks))
    else:
        y = P.label_array([0, 1], ks)
    if case["yseries"]:
        import pandas as pd

        y = pd.Series(y)
    if case["aset"] == "train":
        Xa = P.select(X, [1, 4, 6, 11])
    else:
        Xa, _ = P.apply_panel(4, 2, nc, Lc, fam)

    if case.get("uneq"):
        # the shortest series of all is in the fit panel only; every apply instance has its own length
        cut_fit = [0, 3, 1, 9, 2, 5, 0, 4, 6, 1, 7, 2]
        cut_app = [0, 5, 2, 7]
        X = [[col[:len(col) - cut_fit[i % len(cut_fit)]] for col in x] for i, x in enumerate(X)]
        Xa = [[col[:len(col) - cut_app[i % 4]] for col in x] for i, x in enumerate(Xa)]
    if case["est"] == "Plateau":
        # plateaus of exactly 0.0 so that the finder has something instance specific to find
        X = [[[max(v, 0.0) for v in col] for col in x] for x in X]
        Xa = [[[max(v, 0.0) for v in col] for col in x] for x in Xa]

    # reference: nested at fit, nested at apply, natural order
    ref_est = _build(case)
    o = call(lambda: ref_est.fit(P.container(X, "nested", naming), y))
    if not o.ok:
        res.outcome("%s:ref-fit:%s" % (name, o.kind))
        res.violate(key + ":ref:raises", "fit on the nested reference container raised",
                    observed=o.brief())
        return res
    o = call(lambda: _apply(case, ref_est, P.container(Xa, "nested", naming)))
    if not o.ok:
        res.outcome("%s:ref-apply:%s" % (name, o.kind))
        res.violate(key + ":ref:raises", "apply on the nested reference container raised",
                    observed=o.brief())
        return res
    R = o.value
    res.evals += 1

    # estimator under the case's fit container
    if fitc == "nested":
        est = ref_est
    else:
        est = _build(case)
        o = call(lambda: est.fit(P.container(X, fitc, naming), y))
        if not o.ok:
            res.outcome("%s:fit-numpy:%s" % (name, o.kind))
            res.violate(key + ":container:raises", "fit accepts the nested DataFrame but raises "
                        "on the same data as a 3-D array", expected="fitted estimator",
                        observed=o.brief())
            return res
    o = call(lambda: _apply(case, est, P.container(Xa, appc, naming)))
    res.evals += 1
    if not o.ok:
        res.outcome("%s:batch:%s" % (name, o.kind))
        res.violate(key + ":container:raises", "batch apply raises for fit=%s apply=%s (naming "
                    "%s) although nested/nested works" % (fitc, appc, naming),
                    expected="4 rows", observed=o.brief())
        return res
    B = o.value
    for oname in B:
        k2 = key if oname == "out" else key + ":" + oname
        if len(B[oname]) != 4:
            res.violate(k2 + ":rows", "batch output has a wrong number of rows "
                        "(fit=%s apply=%s)" % (fitc, appc), expected=4, observed=len(B[oname]))
            return res
        d = P.first_diff(B[oname], R[oname])
        if d != -1:
            res.violate(k2 + ":container", "result depends on the container (fit=%s apply=%s, "
                        "reference nested/nested), first differing instance %d" % (fitc, appc, d),
                        expected=P.row_brief(R[oname][d]), observed=P.row_brief(B[oname][d]))
    distinct = sum(1 for a, b in itertools.combinations(range(4), 2)
                   if not P.row_equal(B["out"][a], B["out"][b]))
    if distinct:
        res.nt(tuple(sorted((k, str(v)) for k, v in case.items())))
    res.outcome("%s:%s:distinct-row-pairs=%d" % (case["kind"], case["group"], min(distinct, 6)))
    ties = _tie_rows(B["out"]) if case["kind"] == "clf" else set()

    variants = PERMS if case["group"] == "perm" else SUBS
    seen = set()
    def judge(idx, sfx, mkin):
        aspect = ("perm" if len(idx) == 4 else ("singleton" if len(idx) == 1 else "pair")) + sfx
        o = call(lambda: _apply(case, est, mkin()))
        res.evals += 1
        if not o.ok:
            k3 = "%s:%s:raises" % (key, aspect)
            if k3 not in seen:
                seen.add(k3)
                res.violate(k3, "apply raises on instances %s although the batch works" % idx,
                            expected="%d rows" % len(idx), observed=o.brief())
            res.outcome("%s:%s:%s" % (case["kind"], aspect, o.kind))
            return
        V = o.value
        for oname in V:
            k2 = key if oname == "out" else key + ":" + oname
            exp = [B[oname][i] for i in idx]
            got = V[oname]
            if len(got) != len(idx):
                k3 = k2 + ":rows"
                if k3 not in seen:
                    seen.add(k3)
                    res.violate(k3, "number of output rows differs from the number of input "
                                "instances %s" % idx, expected=len(idx), observed=len(got))
                continue
            for pos, i in enumerate(idx):
                if P.row_equal(got[pos], exp[pos]):
                    continue
                if oname == "predict" and i in ties:
                    res.outcome("clf:predict:tie-accepted")
                    continue
                k3 = "%s:%s" % (k2, aspect)
                if k3 not in seen:
                    seen.add(k3)
                    res.violate(k3, "output row %d for instances %s differs from the batch row "
                                "of instance %d (fit=%s apply=%s)" % (pos, idx, i, fitc, appc),
                                expected=P.row_brief(exp[pos]), observed=P.row_brief(got[pos]))
                break

    for idx in variants:
        if idx == [0, 1, 2, 3]:
            continue
        judge(idx, "", lambda: P.container(P.select(Xa, idx), appc, naming))
        if appc == "nested":
            # the same instances selected from the batch frame with their row labels kept (the
            # labels are then not 0..n-1 in order)
            judge(idx, ":rowlabels", lambda: P.container(Xa, "nested", naming).iloc[idx])
    res.outcome("%s:%s:done" % (case["kind"], case["group"]))
    return res
