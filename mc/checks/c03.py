"""C03 - forecasts are indexed by exactly the requested horizon from the true cutoff
(E2: exhaustive call-history tree per forecaster program, metamorphic +7 twin)."""
import itertools

import numpy as np
import pandas as pd

from .. import fmenu
from ..core import Result, call, close, subsets

ID = "C03"
LEVEL = "model_checking"
ANCHORS = [
    "sktime/forecasting/base/_sktime.py", "sktime/forecasting/base/_base.py",
    "sktime/forecasting/base/_fh.py", "sktime/forecasting/base/_meta.py",
    "sktime/forecasting/naive.py", "sktime/forecasting/trend.py",
    "sktime/forecasting/base/adapters/_statsmodels.py", "sktime/forecasting/exp_smoothing.py",
    "sktime/forecasting/theta.py", "sktime/forecasting/ets.py",
    "sktime/forecasting/compose/_reduce.py", "sktime/forecasting/compose/_ensemble.py",
    "sktime/forecasting/compose/_pipeline.py", "sktime/forecasting/compose/_stack.py",
    "sktime/forecasting/compose/_multiplexer.py", "sktime/forecasting/model_selection/_tune.py",
]
RULE = (
    "programs = every forecaster of the menu (elementary, statsmodels adapters, 8 reductions, "
    "ensemble, pipeline, stacking, multiplexer, tuner, depth-2 nestings); for each program x "
    "horizon (non-empty subsets of {1..4}, <=2 steps quick / <=3 thorough) x horizon passing "
    "mode (fit / predict; relative list, array, ForecastingHorizon, absolute ForecastingHorizon, "
    "relative / absolute pandas Index given in scrambled order; sib: every predict preceded by a predict for the sibling horizon with equal first step, last step and length; alt_equal: relative steps at fit, "
    "then alternately absolute and relative requests whose NUMBERS equal those of the previous "
    "request of the other kind, on a series ending at -1) "
    "the complete tree of call histories over {predict, update(size in {1,3} (thorough 1..3), "
    "update_params in {T,F}), re-passing two already remembered observations} up to depth 3 (mode shared: depth 2, two composites constructed from "
    "the same member objects driven in lock-step on the series and its shifted copy) after fit is executed on a fresh object, and again "
    "on a twin whose labels are shifted by +7. state = (cutoff, memory, params epoch) fingerprint; "
    "transitions = executed calls. Index kind (RangeIndex/Index, start 0/5) and n in {12,15} "
    "rotate with case index + seed (thorough: crossed)."
)
ASSUMPTIONS = [
    "integer and range indexes only (Period/Datetime need Timestamp.freq, gone in pandas 2)",
    "horizon-dependent forecasters (direct/multioutput/dirrec reduction, stacking) are driven "
    "with their fit-time horizon only",
    "absolute horizons are built from the cutoff current at the time of the call",
]

FHMODES = ["fit_rel_list", "pred_rel_list", "pred_rel_array", "pred_rel_fh", "pred_abs_fh",
           "fit_rel_fh", "pred_rel_uindex", "pred_abs_ufh", "fit_rel_uindex", "fit_abs_far",
           "alt_equal"]
IDX = [("range", 0), ("range", 5), ("index", 0), ("index", 5)]


def _specs(tier):
    return fmenu.BASIC + fmenu.SM + fmenu.COMPOSITES + fmenu.DEPTH2


def gen_cases(tier, seed):
    i = 0
    fhs = list(subsets(range(1, 5), max_size=2 if tier == "quick" else 3))
    for spec in _specs(tier):
        slow = fmenu.is_slow(spec)
        for fh in fhs:
            if slow and tier == "quick" and fh not in ([1], [2, 4], [1, 2]):
                continue
            for mode in FHMODES:
                if fmenu.needs_fh_at_fit(spec) and not mode.startswith("fit") \
                        and mode != "alt_equal":
                    continue
                if mode == "fit_abs_far" and (fmenu.needs_fh_at_fit(spec) or slow):
                    continue  # horizon-dependent reductions train on the steps of the fit cutoff
                if slow and tier == "quick" and mode in ("pred_rel_array", "fit_rel_fh",
                                                        "fit_rel_uindex", "pred_abs_ufh"):
                    continue
                combos = [IDX[(i + seed) % 4]] if tier == "quick" else IDX
                for ik in combos:
                    i += 1
                    n = (12, 15)[(i + seed) % 2]
                    deep = spec in fmenu.BASIC or tier != "quick"
                    if mode == "alt_equal":
                        ik = (ik[0], "neg")  # training index ends at -1
                    yield dict(spec=spec, fh=fh, mode=mode, idx=list(ik), n=n,
                               depth=(3 if deep and not slow else 2), fam=seed % 2)


    # every judged predict is preceded by a predict for the SIBLING horizon (same first step, last
    # step and number of steps, other interior step) from the same cutoff
    for spec in _specs(tier):
        if fmenu.needs_fh_at_fit(spec) or (fmenu.is_slow(spec) and tier == "quick"):
            continue
        for fh in ([1, 2, 4], [1, 3, 4]):
            i += 1
            yield dict(spec=spec, fh=fh, mode="sib_pred_rel_list", idx=list(IDX[(i + seed) % 4]),
                       n=(12, 15)[(i + seed) % 2], depth=2, fam=seed % 2)
    # two composites constructed from the same member objects, driven in lock-step on a series
    # and on its +7 shifted copy
    for spec in _specs(tier):
        if spec[0] in ("naive", "poly"):
            continue
        for fh in ([1], [2, 4]):
            i += 1
            yield dict(spec=spec, fh=fh, mode="shared", idx=list(IDX[(i + seed) % 4]),
                       n=(12, 15)[(i + seed) % 2], depth=2, fam=seed % 2)


def _run_shared(case, res, tag):
    spec, steps = case["spec"], case["fh"]
    kind, start = case["idx"]
    n0 = case["n"]
    y = _series(n0 + 10, case["fam"], kind, start)
    y7 = pd.Series(y.values, index=y.index + 7 if kind == "index"
                   else pd.RangeIndex(start + 7, start + 7 + len(y)))
    needs = fmenu.needs_fh_at_fit(spec)
    for hist in _histories(2, (1, 3)):
        res.evals += 1
        A = fmenu.build(spec)
        B = type(A)(**A.get_params(deep=False))
        objs = ((A, y, 0), (B, y7, 7))
        for f, ys, _ in objs:
            o = call(lambda: f.fit(ys.iloc[:n0].copy(), fh=list(steps) if needs else None))
            res.transitions += 1
            if not o.ok:
                res.violate("%s:shared:fit:raises" % tag, "fit raised", observed=o.brief())
                return
        pos = n0
        for op in hist:
            got = []
            for f, ys, sh in objs:
                res.transitions += 1
                if op[0] == "U":
                    o = call(lambda: f.update(ys.iloc[pos:pos + op[1]].copy(), update_params=op[2]))
                    exp = int(ys.index[pos + op[1] - 1])
                    if o.ok and int(f.cutoff) != exp:
                        res.violate("%s:shared:cutoff" % tag, "cutoff after update is not the "
                                    "last label of the data passed to update (second composite "
                                    "built from the same member objects in use)", expected=exp,
                                    observed=dict(cutoff=int(f.cutoff), history=[list(h) for h in hist]))
                        return
                else:
                    o = call(lambda: f.predict(None if needs else list(steps)))
                    if o.ok:
                        c = int(ys.index[pos - 1])
                        idx = [int(v) for v in o.value.index]
                        if idx != [c + s_ for s_ in steps]:
                            res.violate("%s:shared:index" % tag, "forecast index != cutoff + steps "
                                        "when a second composite built from the same member "
                                        "objects was fitted on a shifted series",
                                        expected=[c + s_ for s_ in steps],
                                        observed=dict(index=idx, history=[list(h) for h in hist]))
                            return
                        got.append([float(v) for v in o.value.values])
                if not o.ok:
                    res.violate("%s:shared:raises" % tag, "call raised", observed=o.brief())
                    return
            if op[0] == "U":
                pos += op[1]
            elif not close(got[0], got[1], rtol=1e-7, atol=1e-9):
                res.violate("%s:shared:shift" % tag, "forecast values of the shifted twin differ",
                            expected=got[0], observed=dict(values=got[1],
                                                           history=[list(h) for h in hist]))
                return
            res.states += 1


def _series(n_total, fam, kind, start):
    t = np.arange(n_total, dtype=float)
    v = 20.0 + 1.25 * t + np.array([3.0, -1.0, 0.5, 1.5, -2.0, 2.5])[(t.astype(int) * (fam + 1)) % 6]
    if kind == "range":
        idx = pd.RangeIndex(start, start + n_total)
    else:
        idx = pd.Index(np.arange(start, start + n_total), dtype="int64")
    return pd.Series(v, index=idx)


def _scr(steps):
    s = list(steps)
    return s[1:] + s[:1] if len(s) > 1 else s


def _mk_fh(steps, mode, cutoff):
    from sktime.forecasting.base import ForecastingHorizon

    if mode.endswith("rel_uindex"):  # pandas Index given in scrambled order
        return pd.Index(_scr(steps), dtype="int64")
    if mode.endswith("abs_ufh"):
        return ForecastingHorizon(pd.Index([cutoff + s for s in _scr(steps)], dtype="int64"),
                                  is_relative=False)
    if mode.endswith("rel_list"):
        return list(steps)
    if mode.endswith("rel_array"):
        return np.array(steps)
    if mode.endswith("rel_fh"):
        return ForecastingHorizon(np.array(steps), is_relative=True)
    return ForecastingHorizon(np.array([cutoff + s for s in steps]), is_relative=False)


def _histories(depth, sizes):
    ups = [("U", s, p) for s in sizes for p in (True, False)]
    alpha = [("P",)] + ups
    # ("B", 2, False): two observations the forecaster has seen before are passed again (the
    # batch ends before the end of what it remembers); in histories of up to 3 calls
    back = [("B", 2, False)]
    for d in range(1, depth + 1):
        for h in itertools.product(alpha, repeat=d):
            if h[-1][0] == "P":
                yield h
    for d in range(2, min(depth, 3) + 1):
        for h in itertools.product(alpha + back, repeat=d):
            if h[-1][0] == "P" and any(o[0] == "B" for o in h):
                yield h


FAR = 7  # offset of the absolute horizon given at fit: still out-of-sample after two updates of 3


def _run(spec, y_full, n0, steps, mode, hist, res, tag, shift=0):
    """execute one history on a fresh object; returns list of observations or None"""
    from sktime.forecasting.base import ForecastingHorizon

    f = fmenu.build(spec)
    y0 = y_full.iloc[:n0]
    at_fit = mode.startswith("fit")
    fhv = _mk_fh(steps, mode, y0.index[-1]) if at_fit else None
    abs_labels = None
    alt = mode == "alt_equal"
    needs = fmenu.needs_fh_at_fit(spec)
    if alt:
        # horizons of different kind but equal numbers, one after the other: relative `steps` at
        # fit, then alternately an absolute horizon whose time points are the numbers of the
        # previous (relative) request and a relative one whose steps are the numbers of the
        # previous absolute request (numbers in the coordinates of the unshifted series)
        fhv, prev, npred = list(steps), list(steps), 0
    if mode == "fit_abs_far":
        # absolute time points requested once, at fit; they must label every later forecast
        abs_labels = [int(y0.index[-1]) + FAR + s for s in steps]
        fhv = ForecastingHorizon(np.array(abs_labels), is_relative=False)
    o = call(lambda: f.fit(y0.copy(), fh=fhv))
    res.transitions += 1
    if not o.ok:
        res.violate("%s:fit:raises" % tag, "fit raised on valid input", observed=o.brief())
        return None
    if o.value is not f:
        res.violate("%s:fit:self" % tag, "fit did not return self")
    obs = []
    pos = n0
    last_label = y0.index[-1]
    mem = n0
    epoch = n0
    if f.cutoff != last_label:
        res.violate("%s:cutoff:fit" % tag, "cutoff after fit is not the last training label",
                    expected=last_label, observed=f.cutoff)
        return None
    for op in hist:
        res.transitions += 1
        if op[0] in ("U", "B"):
            if op[0] == "B":
                batch = y_full.iloc[pos - 3:pos - 1]
            else:
                batch = y_full.iloc[pos:pos + op[1]]
            o = call(lambda: f.update(batch.copy(), update_params=op[2]))
            if not o.ok:
                res.violate("%s:update:raises" % tag, "update raised on in-order data",
                            observed=o.brief())
                return None
            if op[0] == "U":
                pos += op[1]
            last_label = batch.index[-1]
            if op[2]:
                epoch = pos
            if f.cutoff != last_label:
                res.violate("%s:cutoff:update" % tag, "cutoff after update is not the last "
                            "label of the data passed to update", expected=last_label,
                            observed=f.cutoff)
                return None
            obs.append(("U", int(f.cutoff)))
        else:
            fhp = None if at_fit else _mk_fh(steps, mode, last_label)
            rel = list(steps)
            if alt:
                cb = int(last_label) - shift
                if needs:
                    # a horizon-dependent forecaster asked for the absolute time points `steps`:
                    # the same horizon only if the cutoff is 0, otherwise it has to refuse
                    rel = [s_ - cb for s_ in steps]
                    fhp = ForecastingHorizon(np.array([s_ + shift for s_ in steps]),
                                             is_relative=False)
                elif npred % 2 == 0:
                    rel = [p_ - cb for p_ in prev]
                    if min(rel) < 1:
                        rel = list(steps)
                    prev = [cb + r_ for r_ in rel]
                    fhp = ForecastingHorizon(np.array([int(last_label) + r_ for r_ in rel]),
                                             is_relative=False)
                else:
                    rel = list(prev) if min(prev) >= 1 else list(steps)
                    prev = list(rel)
                    fhp = list(rel)
                npred += 1
            if mode.startswith("sib_"):
                sib = [steps[0], steps[0] + steps[-1] - steps[1], steps[-1]]
                call(lambda: f.predict(list(sib)))
                res.transitions += 1
            o = call(lambda: f.predict(fhp))
            if alt and needs and rel != list(steps):
                if o.ok:
                    res.violate("%s:predict:other-horizon" % tag, "a forecaster fitted for "
                                "relative steps answers a request for absolute time points that "
                                "are other steps (labels are not the requested time points)",
                                expected="error, or labels %s" % [s_ + shift for s_ in steps],
                                observed=[int(v) for v in o.value.index])
                    return None
                obs.append(("R",))
                res.states += 1
                continue
            if not o.ok:
                res.violate("%s:predict:raises" % tag, "predict raised", observed=o.brief())
                return None
            p = o.value
            exp_idx = [int(last_label) + s for s in rel] if abs_labels is None else abs_labels
            if not isinstance(p, pd.Series) or [int(v) for v in p.index] != exp_idx:
                res.violate("%s:index" % tag, "forecast index != cutoff + requested steps",
                            expected=exp_idx, observed=list(getattr(p, "index", [])))
                return None
            vals = np.asarray(p.values, dtype=float)
            if len(vals) != len(rel) or not np.all(np.isfinite(vals)):
                res.violate("%s:values" % tag, "forecast not finite / wrong length",
                            observed=list(vals))
                return None
            obs.append(("P", exp_idx, [float(v) for v in vals]))
        res.states += 1
    return obs


def run_case(case):
    res = Result()
    spec, steps, mode = case["spec"], case["fh"], case["mode"]
    kind, start = case["idx"]
    n0 = case["n"]
    tag = spec[0] if spec[0] not in ("red", "naive") else "%s-%s" % (spec[0], spec[1])
    sizes = (1, 3)
    if mode == "shared":
        res.evals = 0
        _run_shared(case, res, tag)
        res.nt((str(spec), tuple(steps), mode))
        res.outcome("%s:%s" % (tag, mode))
        return res
    if start == "neg":
        start = -n0
    y = _series(n0 + 10, case["fam"], kind, start)
    y7 = pd.Series(y.values, index=y.index + 7 if kind == "index"
                   else pd.RangeIndex(start + 7, start + 7 + len(y)))
    res.evals = 0
    for hist in _histories(case["depth"], sizes):
        res.evals += 1
        a = _run(spec, y, n0, steps, mode, hist, res, tag)
        if a is None:
            break
        b = _run(spec, y7, n0, steps, mode, hist, res, tag + ":twin", shift=7)
        if b is None:
            break
        for oa, ob in zip(a, b):
            if oa[0] == "P":
                if mode == "fit_abs_far":
                    # the twin's absolute labels are shifted with its index; values may differ in
                    # nothing (same steps from the same relative cutoff)
                    pass
                if ob[0] != "P" or [i + 7 for i in oa[1]] != ob[1] or not close(oa[2], ob[2], rtol=1e-7, atol=1e-9):
                    res.violate("%s:shift" % tag, "shifting the time index by +7 changes the "
                                "forecast values or does not shift the forecast index by 7",
                                expected=dict(index=[i + 7 for i in oa[1]], values=oa[2]),
                                observed=dict(index=ob[1], values=ob[2], history=[list(h) for h in hist]))
                    break
            elif oa[0] == "U" and oa[1] + 7 != ob[1]:
                res.violate("%s:shift:cutoff" % tag, "cutoff of the shifted twin is not shifted",
                            expected=oa[1] + 7, observed=ob[1])
        if res.violations:
            # attach the history to the first violation for replay readers
            res.violations[0]["observed"] = dict(history=[list(h) for h in hist],
                                                 detail=res.violations[0]["observed"])
            break
    res.nt((str(spec), tuple(steps), mode))
    res.outcome("%s:%s" % (tag, mode))
    return res
