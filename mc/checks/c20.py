"""C20 - malformed data, horizons and settings are rejected, never silently mis-handled
(E3: exhaustive fault matrix: entry point x fault class x context, each with a valid twin)."""
import numpy as np
import pandas as pd

from .. import fmenu
from ..core import Result, call

ID = "C20"
LEVEL = "fault_enumeration"
ANCHORS = [
    "sktime/utils/validation/series.py", "sktime/utils/validation/forecasting.py",
    "sktime/utils/validation/__init__.py", "sktime/forecasting/base/_fh.py",
    "sktime/forecasting/base/_sktime.py", "sktime/forecasting/naive.py",
    "sktime/forecasting/model_selection/_split.py", "sktime/forecasting/compose/_reduce.py",
    "sktime/forecasting/base/_meta.py", "sktime/forecasting/compose/_pipeline.py",
    "sktime/forecasting/model_evaluation/_functions.py", "sktime/base/_meta.py",
]
RULE = (
    "complete matrix entry point x fault class x context. Entry points: fit / update / predict "
    "of 13 forecaster programs (elementary, statsmodels adapter, 4 reductions, ensemble, "
    "pipeline, stacking, multiplexer, tuner), the four splitters, evaluate, both searches, "
    "temporal_train_test_split, make_reduction, ForecastingHorizon. Fault classes: unsorted / "
    "empty index, DataFrame / ndarray target, X index != y index, horizon duplicate / empty / "
    "fractional / wrongly typed / missing / different from the fitted one, window / step / sp in "
    "{0,-1,1.5,'a'}, window longer than the series, unknown strategy / scitype / aggfunc, "
    "ill-formed composites (7 kinds). Contexts: 3 series x 2 horizons, enumerated (in place of "
    "the statement's randomised context). One injected fault per call (deviation bound 1); every "
    "cell has the fault-free twin. non-trivial = distinct (entry, fault, context) cells whose "
    "faulty call and twin were both executed."
)
ASSUMPTIONS = [
    "option names validated lazily are judged on the shortest call sequence that would produce "
    "a result (fit then predict): some call must raise an allowed type, no forecast may come out, "
    "and is_fitted must be False if it was fit that raised",
    "K3: float/object pd.Index is not used as a wrongly-typed representative",
    "parameters documented as ignored for a configuration (window_length for strategy='last', "
    "sp=1; sp for drift) are not in the matrix; booleans passed as integers are not a listed fault",
    "CutoffSplitter windows longer than the cutoff are clipped by design (_predict_in_sample "
    "relies on it) and are not in the matrix",
]
ALLOWED = (ValueError, TypeError, NotImplementedError)
BAD_INT = [0, -1, 1.5, "a"]

PROGRAMS = [
    ["naive", "last"], ["naive", "mean", 1, 3], ["poly", 1], ["es"], ["theta", 1],
    ["red", "recursive", 3, "lin"], ["red", "direct", 3, "lin"],
    ["red", "multioutput", 3, "lin"], ["red", "dirrec", 3, "lin"],
    ["ens", "mean", [["naive", "last"], ["poly", 1]]],
    ["ttf", [["detrend", 1]], ["naive", "last"]],
    ["stack", [["naive", "last"], ["poly", 1]]],
    ["mux", [["naive", "last"], ["poly", 1]], 0],
    ["grid", ["naive", "last"], {"strategy": ["last", "mean"]}],
]
DATA_FAULTS = ["unsorted", "reversed_range", "empty", "dataframe", "ndarray", "list", "x_index", "x_shorter",
               "x_longer", "x_longer_front"]
FH_FAULTS = ["dup", "dup_index", "dup_array", "dup_range", "empty", "empty_fh", "empty_fh_array",
             "frac", "frac_array", "str",
             "dict", "set", "series", "missing"]
CONTEXTS = [(12, 0, "range"), (15, 5, "range"), (12, 3, "index")]
FHS = [[1], [1, 3], [3, 5]]


def _y(ctx):
    n, start, kind = ctx
    t = np.arange(n, dtype=float)
    v = 20.0 + 1.5 * t + np.array([2.0, -1.0, 0.5])[t.astype(int) % 3]
    idx = pd.RangeIndex(start, start + n) if kind == "range" else \
        pd.Index(np.arange(start, start + n), dtype="int64")
    return pd.Series(v, index=idx)


def _X(y):
    return pd.DataFrame({"x": 10000.0 + np.arange(len(y))}, index=y.index)


def _X_longer(y, front=False):
    """exogenous frame whose index is a strict superset of y's (extra time points)"""
    lo, hi = int(y.index[0]), int(y.index[-1])
    idx = np.arange(lo - (2 if front else 0), hi + (1 if front else 3))
    idx = pd.RangeIndex(idx[0], idx[-1] + 1) if isinstance(y.index, pd.RangeIndex) else \
        pd.Index(idx, dtype="int64")
    return pd.DataFrame({"x": 10000.0 + np.arange(len(idx))}, index=idx)


def _bad_y(y, fault):
    if fault == "unsorted":
        idx = list(y.index)
        idx[1], idx[2] = idx[2], idx[1]
        return pd.Series(y.values, index=pd.Index(idx, dtype="int64"))
    if fault == "reversed_range":
        # descending RangeIndex: "a RangeIndex is ordered" does not hold for a negative step
        out = pd.Series(y.values, index=pd.RangeIndex(int(y.index[-1]), int(y.index[0]) - 1, -1))
        assert isinstance(out.index, pd.RangeIndex)
        return out
    if fault == "empty":
        return y.iloc[:0]
    if fault == "dataframe":
        return pd.DataFrame({"a": y, "b": y * 2})
    if fault == "ndarray":
        return y.values
    if fault == "list":
        return list(y.values)
    raise ValueError(fault)


def _bad_fh(fault):
    if fault in ("empty_fh", "empty_fh_array"):
        from sktime.forecasting.base import ForecastingHorizon

        # an EMPTY horizon handed over as an already constructed ForecastingHorizon object
        return ForecastingHorizon([] if fault == "empty_fh" else np.array([], dtype=int))
    return {"dup": [1, 1], "dup_index": pd.Index([1, 1, 3], dtype="int64"),
            "dup_array": np.array([2, 2]), "dup_range": pd.Index([2, 1, 2], dtype="int64"),
            "empty": [], "frac": [1.5], "frac_array": np.array([1.0, 2.5]), "str": "1",
            "dict": {1: 2}, "set": {1, 2}, "series": pd.Series([1, 2])}[fault]


def gen_cases(tier, seed):
    ctxs = range(len(CONTEXTS))
    for pi in range(len(PROGRAMS)):
        for ci in ctxs:
            for fhi in range(len(FHS)):
                for fault in DATA_FAULTS:
                    yield dict(entry="fit", prog=pi, fault=fault, ctx=ci, fh=fhi)
                    if fault in ("unsorted", "reversed_range", "dataframe", "ndarray", "list"):
                        yield dict(entry="update", prog=pi, fault=fault, ctx=ci, fh=fhi)
                # valid exogenous data whose index has the same time points but is another object
                # (other Index class / name): must be ACCEPTED
                for v in ("x_equal_class", "x_equal_name"):
                    yield dict(entry="valid", prog=pi, fault=v, ctx=ci, fh=fhi)
                for fault in FH_FAULTS + ["different"]:
                    yield dict(entry="horizon", prog=pi, fault=fault, ctx=ci, fh=fhi)
                # a REJECTED horizon must leave no trace: the next call without a horizon is
                # still a call with a missing horizon
                for fault in FH_FAULTS:
                    if fault != "missing":
                        yield dict(entry="horizon", prog=pi, fault="then-missing:" + fault,
                                   ctx=ci, fh=fhi)
    for ci in ctxs:
        for fhi in range(len(FHS)):
            for sp in ("sliding", "expanding", "single", "cutoff"):
                for which in ("window", "step"):
                    if which == "step" and sp in ("single", "cutoff"):
                        continue
                    for bi in range(len(BAD_INT)):
                        yield dict(entry="splitter", splitter=sp, which=which, bad=bi, ctx=ci,
                                   fh=fhi)
                if sp in ("sliding", "expanding"):
                    # the same two with start_with_window=False
                    yield dict(entry="splitter", splitter=sp, which="toolong:sww0", ctx=ci, fh=fhi)
                    yield dict(entry="splitter", splitter=sp, which="toolong1:sww0", ctx=ci,
                               fh=fhi)
                if sp != "cutoff":
                    yield dict(entry="splitter", splitter=sp, which="toolong", ctx=ci, fh=fhi)
                    # the shortest window that does not fit: n - max(fh) + 1
                    yield dict(entry="splitter", splitter=sp, which="toolong1", ctx=ci, fh=fhi)
                if sp == "sliding":
                    yield dict(entry="splitter", splitter=sp, which="initial_toolong", ctx=ci,
                               fh=fhi)
                    yield dict(entry="splitter", splitter=sp, which="initial_le_window", ctx=ci,
                               fh=fhi)
                for fault in ("dup", "dup_index", "dup_array", "frac", "frac_array", "str",
                              "dict", "set", "series", "empty", "empty_fh"):
                    yield dict(entry="splitter", splitter=sp, which="fh:" + fault, ctx=ci, fh=fhi)
                for fault in ("unsorted", "reversed_range", "empty"):
                    yield dict(entry="splitter", splitter=sp, which="y:" + fault, ctx=ci, fh=fhi)
            for which in ["naive:window", "naive:sp", "red:window"]:
                for bi in range(len(BAD_INT)):
                    yield dict(entry="setting", which=which, bad=bi, ctx=ci, fh=fhi)
            for which in ["naive:strategy", "naive:toolong", "naive:sp_toolong", "red:toolong",
                          "red:toolong1",
                          "red:strategy", "red:scitype", "ens:aggfunc", "naive:mean_w_lt_sp",
                          "naive:drift_w1"]:
                yield dict(entry="setting", which=which, ctx=ci, fh=fhi)
            for comp in ("ens", "stack", "mux", "ttf"):
                for fault in ("empty", "nontuple", "dupnames", "dunder", "ctorname", "notforecaster",
                              "wronglast", "notlist"):
                    if fault == "wronglast" and comp != "ttf":
                        continue
                    yield dict(entry="composite", comp=comp, fault=fault, ctx=ci, fh=fhi)
                    # the same composite object was fitted before in a well-formed state and
                    # becomes ill-formed through set_params
                    yield dict(entry="composite", comp=comp, fault=fault, ctx=ci, fh=fhi,
                               via="refit")
            for which in ("y:unsorted", "y:reversed_range", "y:empty", "y:dataframe", "y:ndarray",
                          "cv:int", "cv:kfold", "strategy", "strategy:single-split", "scoring",
                          "x_index", "x_longer",
                          "valid:x_equal_class", "valid:x_equal_name"):
                yield dict(entry="evaluate", which=which, ctx=ci, fh=fhi)
            for which in ("y:unsorted", "y:dataframe", "y:ndarray", "cv:int", "grid:scalar",
                          "grid:emptylist", "grid:unknownparam"):
                for search in ("grid", "rand"):
                    yield dict(entry="tune", which=which, search=search, ctx=ci, fh=fhi)
            for which in ("fh+test_size", "fh+train_size", "fh:insample", "fh:dup", "fh:dup_index",
                          "fh:empty_fh",
                          "fh:frac", "fh:str", "x_index", "x_longer"):
                yield dict(entry="tts", which=which, ctx=ci, fh=fhi)


# ------------------------------------------------------------------------------ judge
def _judge(res, key, bad, good, fitted_probe=None, nt=None):
    """bad / good: Outcome of the faulty call sequence and of its valid twin"""
    res.outcome("%s:%s" % (key.split(":")[0], bad.kind))
    if not good.ok:
        res.violate(key + ":twin", "the valid twin (differing only in the offending aspect) "
                    "is rejected", observed=good.brief())
        return
    if nt is not None:
        res.nt(nt)
    if bad.ok:
        res.violate(key + ":accepted", "malformed input accepted: a result was produced",
                    expected="ValueError / TypeError / NotImplementedError",
                    observed=repr(bad.value)[:200])
        return
    if not bad.is_a(*ALLOWED):
        res.violate(key + ":type", "malformed input fails with an unrelated exception",
                    expected="ValueError / TypeError / NotImplementedError",
                    observed=bad.brief())
        return
    if fitted_probe is not None and fitted_probe():
        res.violate(key + ":fitted", "estimator reports is_fitted after rejecting its input",
                    observed=True)


def run_case(case):
    res = Result()
    e = case["entry"]
    ctx = CONTEXTS[case["ctx"]]
    fh = FHS[case["fh"]]
    y = _y(ctx)
    nt = tuple(sorted((k, str(v)) for k, v in case.items()))
    if e == "valid":
        _valid_cell(res, case, y, fh, nt)
    elif e in ("fit", "update", "horizon"):
        _forecaster_cell(res, case, y, fh, nt)
    elif e == "splitter":
        _splitter_cell(res, case, y, fh, nt)
    elif e == "setting":
        _setting_cell(res, case, y, fh, nt)
    elif e == "composite":
        _composite_cell(res, case, y, fh, nt)
    elif e == "evaluate":
        _evaluate_cell(res, case, y, fh, nt)
    elif e == "tune":
        _tune_cell(res, case, y, fh, nt)
    else:
        _tts_cell(res, case, y, fh, nt)
    return res


def _X_equal(y, how):
    """exogenous frame with the same time points as y in a separately built index"""
    if how == "x_equal_class":
        idx = pd.Index(np.arange(int(y.index[0]), int(y.index[-1]) + 1), dtype="int64") \
            if isinstance(y.index, pd.RangeIndex) else \
            pd.RangeIndex(int(y.index[0]), int(y.index[-1]) + 1)
    else:
        idx = y.index.copy()
        idx.name = "time"
    assert idx.equals(y.index)
    return pd.DataFrame({"x": 10000.0 + np.arange(len(y))}, index=idx)


def _valid_cell(res, case, y, fh, nt):
    spec = PROGRAMS[case["prog"]]
    if not (spec[0] in ("naive", "red") and spec[1] != "dirrec"):
        return
    req = fmenu.needs_fh_at_fit(spec)
    X = _X_equal(y, case["fault"])
    o = call(lambda: fmenu.build(spec).fit(y.copy(), X, fh=fh if req else None))
    key = "%s:valid:%s" % (_tag(spec), case["fault"])
    res.outcome("valid:" + o.kind)
    res.nt(nt)
    if not o.ok:
        res.violate(key + ":rejected", "valid exogenous data (same time points as the target, "
                    "index built separately) is rejected", observed=o.brief())


def _tag(spec):
    return spec[0] + ("-" + spec[1] if spec[0] in ("red", "naive") else "")


def _forecaster_cell(res, case, y, fh, nt):
    spec = PROGRAMS[case["prog"]]
    tag = _tag(spec)
    fault = case["fault"]
    req = fmenu.needs_fh_at_fit(spec)
    takes_X = spec[0] in ("naive", "red") and spec[1] != "dirrec"
    holder = {}

    def run(yv, Xv, fh_fit, fh_pred, upd=None, pred=True):
        f = fmenu.build(spec)
        holder["f"] = f
        holder["stage"] = "fit"
        f.fit(yv, Xv, fh=fh_fit) if Xv is not None else f.fit(yv, fh=fh_fit)
        holder["stage"] = "after-fit"
        if upd is not None:
            f.update(upd, update_params=False)
        if pred:
            return f.predict(fh_pred)
        return f

    def fitted_if_fit_raised():
        f = holder.get("f")
        return holder.get("stage") == "fit" and f is not None and bool(f.is_fitted)

    fh_fit = fh if req else None
    fh_pred = None if req else fh
    if case["entry"] == "fit":
        key = "%s:fit:%s" % (tag, fault)
        if fault.startswith("x_"):
            if not takes_X:
                return
            Xg = _X(y)
            Xb = Xg.copy()
            if fault == "x_index":
                Xb.index = Xb.index + 1
            elif fault == "x_shorter":
                Xb = Xb.iloc[:-2]
            else:
                Xb = _X_longer(y, front=fault.endswith("front"))
            good = call(run, y.copy(), Xg, fh_fit, fh_pred, None, False)
            bad = call(run, y.copy(), Xb, fh_fit, fh_pred, None, False)
        else:
            good = call(run, y.copy(), None, fh_fit, fh_pred)
            bad = call(run, _bad_y(y, fault), None, fh_fit, fh_pred)
        _judge(res, key, bad, good, fitted_if_fit_raised, nt)
        return
    if case["entry"] == "update":
        key = "%s:update:%s" % (tag, fault)
        y0, y1 = y.iloc[:-3], y.iloc[-3:]
        good = call(run, y0.copy(), None, fh_fit, fh_pred, y1.copy())
        bad = call(run, y0.copy(), None, fh_fit, fh_pred, _bad_y(y1, fault))
        _judge(res, key, bad, good, None, nt)
        return
    # horizon faults
    key = "%s:horizon:%s" % (tag, fault)
    if fault.startswith("then-missing:"):
        if req:
            return
        bfh = _bad_fh(fault.split(":", 1)[1])

        def seq(first_fh, at):
            f = fmenu.build(spec)
            if at == "predict":
                f.fit(y.copy())
                try:
                    f.predict(first_fh)
                except ALLOWED:
                    pass
            else:
                try:
                    f.fit(y.copy(), fh=first_fh)
                except ALLOWED:
                    f.fit(y.copy())
            return f.predict()

        for at in ("predict", "fit"):
            good = call(seq, fh, at)  # a valid horizon IS remembered
            bad = call(seq, bfh, at)
            _judge(res, key + ":" + at, bad, good, None, nt + (at,))
        return
    if fault == "different":
        if not req:
            return
        other = [h + 1 for h in fh]
        good = call(run, y.copy(), None, fh, fh)
        bad = call(run, y.copy(), None, fh, other)
        _judge(res, key, bad, good, None, nt)
        return
    if fault == "missing":
        good = call(run, y.copy(), None, fh_fit, fh_pred)
        bad = call(run, y.copy(), None, None, None)
        _judge(res, key, bad, good, fitted_if_fit_raised if req else None, nt)
        return
    bfh = _bad_fh(fault)
    good = call(run, y.copy(), None, fh_fit, fh_pred)
    if req:
        bad = call(run, y.copy(), None, bfh, None)
        _judge(res, key + ":fit", bad, good, fitted_if_fit_raised, nt)
    else:
        bad = call(run, y.copy(), None, None, bfh)
        _judge(res, key + ":predict", bad, good, None, nt)
        bad2 = call(run, y.copy(), None, bfh, None)
        _judge(res, key + ":fit", bad2, good, fitted_if_fit_raised, nt + ("fit",))


def _mk_splitter(kind, fh, W, s, n):
    from sktime.forecasting.model_selection import (
        CutoffSplitter, ExpandingWindowSplitter, SingleWindowSplitter, SlidingWindowSplitter)

    if kind == "sliding":
        return SlidingWindowSplitter(fh=fh, window_length=W, step_length=s)
    if kind == "expanding":
        return ExpandingWindowSplitter(fh=fh, initial_window=W, step_length=s)
    if kind == "single":
        return SingleWindowSplitter(fh=fh, window_length=W)
    try:
        H = int(max(fh))
    except Exception:
        H = 3
    return CutoffSplitter(np.array([n - H - 2, n - H - 1]), fh=fh, window_length=W)


def _splitter_cell(res, case, y, fh, nt):
    kind, which = case["splitter"], case["which"]
    n = len(y)
    key = "splitter:%s:%s" % (kind, which)

    def run(fhv, W, s, yv):
        cv = _mk_splitter(kind, fhv, W, s, n)
        if which.endswith(":sww0"):
            cv = type(cv)(fh=fhv, step_length=s, start_with_window=False,
                          **({"window_length": W} if kind == "sliding" else {"initial_window": W}))
        return [(a.tolist(), b.tolist()) for a, b in cv.split(yv)]

    good = call(run, fh, 3, 1, y)
    if which in ("initial_toolong", "initial_le_window"):
        from sktime.forecasting.model_selection import SlidingWindowSplitter

        def run_i(I):
            cv = SlidingWindowSplitter(fh=fh, window_length=3, step_length=1, initial_window=I)
            return [(a.tolist(), b.tolist()) for a, b in cv.split(y)]

        good = call(run_i, n - max(fh))        # the longest initial window that fits
        bad = call(run_i, n - max(fh) + 1 if which == "initial_toolong" else 3)
        _judge(res, key, bad, good, None, nt)
        return
    if which in ("window", "step"):
        b = BAD_INT[case["bad"]]
        key += ":%r" % (b,)
        bad = call(run, fh, b if which == "window" else 3, b if which == "step" else 1, y)
    elif which in ("toolong", "toolong:sww0"):
        bad = call(run, fh, n + 2, 1, y)
    elif which in ("toolong1", "toolong1:sww0"):
        good = call(run, fh, n - max(fh), 1, y)  # the longest window that still fits
        bad = call(run, fh, n - max(fh) + 1, 1, y)
    elif which.startswith("fh:"):
        bad = call(run, _bad_fh(which[3:]), 3, 1, y)
    else:
        bad = call(run, fh, 3, 1, _bad_y(y, which[2:]))
    _judge(res, key, bad, good, None, nt)


def _setting_cell(res, case, y, fh, nt):
    from sklearn.linear_model import LinearRegression
    from sktime.forecasting.compose import EnsembleForecaster, make_reduction
    from sktime.forecasting.naive import NaiveForecaster
    from sktime.forecasting.trend import PolynomialTrendForecaster

    which = case["which"]
    n = len(y)
    key = "setting:" + which
    holder = {}

    def prog(make, fh_fit=None, fh_pred=None):
        f = make()
        holder["f"], holder["stage"] = f, "fit"
        f.fit(y.copy(), fh=fh_fit)
        holder["stage"] = "after-fit"
        return f.predict(fh_pred)

    def fitted_if_fit_raised():
        f = holder.get("f")
        return holder.get("stage") == "fit" and f is not None and bool(f.is_fitted)

    if which in ("naive:window", "naive:sp", "red:window"):
        b = BAD_INT[case["bad"]]
        key += ":%r" % (b,)
        if which == "naive:window":
            bad = call(prog, lambda: NaiveForecaster("mean", window_length=b), None, fh)
            good = call(prog, lambda: NaiveForecaster("mean", window_length=3), None, fh)
        elif which == "naive:sp":
            bad = call(prog, lambda: NaiveForecaster("last", sp=b), None, fh)
            good = call(prog, lambda: NaiveForecaster("last", sp=2), None, fh)
        else:
            bad = call(prog, lambda: make_reduction(LinearRegression(), "recursive", b), None, fh)
            good = call(prog, lambda: make_reduction(LinearRegression(), "recursive", 3), None, fh)
    elif which == "naive:strategy":
        bad = call(prog, lambda: NaiveForecaster("foo"), None, fh)
        good = call(prog, lambda: NaiveForecaster("last"), None, fh)
    elif which == "naive:toolong":
        bad = call(prog, lambda: NaiveForecaster("mean", window_length=n + 1), None, fh)
        good = call(prog, lambda: NaiveForecaster("mean", window_length=n), None, fh)
    elif which == "naive:sp_toolong":
        bad = call(prog, lambda: NaiveForecaster("last", sp=n + 1), None, fh)
        good = call(prog, lambda: NaiveForecaster("last", sp=n), None, fh)
    elif which == "naive:mean_w_lt_sp":
        bad = call(prog, lambda: NaiveForecaster("mean", sp=4, window_length=3), None, fh)
        good = call(prog, lambda: NaiveForecaster("mean", sp=3, window_length=3), None, fh)
    elif which == "naive:drift_w1":
        bad = call(prog, lambda: NaiveForecaster("drift", window_length=1), None, fh)
        good = call(prog, lambda: NaiveForecaster("drift", window_length=2), None, fh)
    elif which == "red:toolong":
        bad = call(prog, lambda: make_reduction(LinearRegression(), "direct", n), fh, None)
        good = call(prog, lambda: make_reduction(LinearRegression(), "direct", 3), fh, None)
    elif which == "red:toolong1":
        H = max(fh)
        bad = call(prog, lambda: make_reduction(LinearRegression(), "direct", n - H + 1), fh, None)
        good = call(prog, lambda: make_reduction(LinearRegression(), "direct", n - H), fh, None)
    elif which == "red:strategy":
        bad = call(prog, lambda: make_reduction(LinearRegression(), "foo", 3), fh, None)
        good = call(prog, lambda: make_reduction(LinearRegression(), "direct", 3), fh, None)
    elif which == "red:scitype":
        bad = call(prog, lambda: make_reduction(LinearRegression(), "recursive", 3, "foo"), None, fh)
        good = call(prog, lambda: make_reduction(LinearRegression(), "recursive", 3,
                                                 "tabular-regressor"), None, fh)
    else:  # ens:aggfunc (validated lazily at predict)
        mk = lambda a: EnsembleForecaster([("a", NaiveForecaster()),  # noqa
                                           ("b", PolynomialTrendForecaster())], aggfunc=a)
        bad = call(prog, lambda: mk("foo"), None, fh)
        good = call(prog, lambda: mk("median"), None, fh)
    _judge(res, key, bad, good, fitted_if_fit_raised, nt)


def _composite_cell(res, case, y, fh, nt):
    from sktime.forecasting.compose import (
        EnsembleForecaster, MultiplexForecaster, StackingForecaster,
        TransformedTargetForecaster)
    from sktime.forecasting.naive import NaiveForecaster
    from sktime.forecasting.trend import PolynomialTrendForecaster
    from sktime.transformations.series.detrend import Detrender
    from .. import doubles

    comp, fault = case["comp"], case["fault"]
    key = "composite:%s:%s" % (comp, fault) + (":refit" if case.get("via") == "refit" else "")
    a, b = NaiveForecaster(), PolynomialTrendForecaster()
    ctor_arg = {"ens": "forecasters", "stack": "forecasters", "mux": "forecasters",
                "ttf": "steps"}[comp]
    if comp == "ttf":
        goodlist = [("t", Detrender()), ("f", a)]
    else:
        goodlist = [("a", a), ("b", b)]
    first = goodlist[0][1]
    badlist = {
        "empty": [],
        "nontuple": [first, goodlist[1][1]],
        "dupnames": [("a", first), ("a", goodlist[1][1])],
        "dunder": [("a__x", first), goodlist[1]],
        "ctorname": [(ctor_arg, first), goodlist[1]],
        "notforecaster": [goodlist[0], ("z", doubles.LinearExact())] if comp != "ttf" else
        [("t", doubles.LinearExact()), ("f", a)],
        "wronglast": [("t", Detrender()), ("f", Detrender())],
        "notlist": tuple(goodlist) if comp != "ttf" else None,
    }[fault]
    if badlist is None:
        return
    holder = {}

    def mk(lst):
        if comp == "ens":
            return EnsembleForecaster(lst)
        if comp == "stack":
            return StackingForecaster(lst, final_regressor=doubles.LinearExact())
        if comp == "mux":
            sel = "a"
            if lst is not goodlist and fault == "dunder":
                sel = "a__x"
            if lst is not goodlist and fault == "ctorname":
                sel = ctor_arg
            return MultiplexForecaster(lst, selected_forecaster=sel)
        return TransformedTargetForecaster(lst)

    def prog(lst):
        if case.get("via") == "refit":
            f = mk(goodlist)
            f.fit(y.iloc[:-2].copy(), fh=fh)
            f.predict()
            f.set_params(**{ctor_arg: lst})
        else:
            f = mk(lst)
        holder["f"], holder["stage"] = f, "fit"
        f.fit(y.copy(), fh=fh)
        holder["stage"] = "after-fit"
        return f.predict()

    def fitted_if_fit_raised():
        f = holder.get("f")
        return holder.get("stage") == "fit" and f is not None and bool(f.is_fitted)

    good = call(prog, goodlist)
    bad = call(prog, badlist)
    _judge(res, key, bad, good, fitted_if_fit_raised, nt)


def _evaluate_cell(res, case, y, fh, nt):
    from sklearn.model_selection import KFold
    from sktime.forecasting.model_evaluation import evaluate
    from sktime.forecasting.model_selection import ExpandingWindowSplitter
    from sktime.forecasting.naive import NaiveForecaster

    which = case["which"]
    key = "evaluate:" + which
    cv = ExpandingWindowSplitter(fh=fh, initial_window=5, step_length=2)
    kw = dict(forecaster=NaiveForecaster(), cv=cv, y=y.copy(), X=None, strategy="refit",
              scoring=None)
    bkw = dict(kw)
    bkw["forecaster"] = NaiveForecaster()
    if which.startswith("y:"):
        bkw["y"] = _bad_y(y, which[2:])
    elif which == "cv:int":
        bkw["cv"] = 3
    elif which == "cv:kfold":
        bkw["cv"] = KFold(2)
    elif which == "strategy":
        bkw["strategy"] = "foo"
    elif which == "strategy:single-split":
        from sktime.forecasting.model_selection import SingleWindowSplitter

        kw["cv"] = SingleWindowSplitter(fh=fh, window_length=5)
        bkw["cv"] = SingleWindowSplitter(fh=fh, window_length=5)
        bkw["strategy"] = "foo"
    elif which == "scoring":
        bkw["scoring"] = "mape"
    elif which.startswith("valid:"):
        kw["X"] = _X_equal(y, which[6:])
        o = call(lambda: evaluate(**kw))
        res.outcome("valid:" + o.kind)
        res.nt(nt)
        if not o.ok:
            res.violate(key + ":rejected", "valid exogenous data (equal time points, separately "
                        "built index) is rejected", observed=o.brief())
        return
    else:
        kw["X"] = _X(y)
        Xb = _X(y)
        Xb.index = Xb.index + 1
        bkw["X"] = Xb if which == "x_index" else _X_longer(y)
    good = call(lambda: evaluate(**kw))
    bad = call(lambda: evaluate(**bkw))
    f = bkw["forecaster"]
    # a rejected call must not leave the forecaster that was handed in fitted
    _judge(res, key, bad, good, (lambda: bool(f.is_fitted)) if which.startswith("strategy") or
           which.startswith("cv") or which == "scoring" else None, nt)


def _tune_cell(res, case, y, fh, nt):
    from sktime.forecasting.model_selection import (
        ExpandingWindowSplitter, ForecastingGridSearchCV, ForecastingRandomizedSearchCV)
    from sktime.forecasting.naive import NaiveForecaster

    which, search = case["which"], case["search"]
    key = "tune:%s:%s" % (search, which)
    cv = ExpandingWindowSplitter(fh=fh, initial_window=5, step_length=2)
    grid = {"strategy": ["last", "mean"]}
    holder = {}

    def prog(yv, cvv, g):
        if search == "grid":
            t = ForecastingGridSearchCV(NaiveForecaster(), cv=cvv, param_grid=g, refit=True)
        else:
            t = ForecastingRandomizedSearchCV(NaiveForecaster(), cv=cvv, param_distributions=g,
                                              n_iter=2, random_state=0, refit=True)
        holder["f"] = t
        t.fit(yv, fh=fh)
        return t.predict()

    good = call(prog, y.copy(), cv, grid)
    if which.startswith("y:"):
        bad = call(prog, _bad_y(y, which[2:]), cv, grid)
    elif which == "cv:int":
        bad = call(prog, y.copy(), 3, grid)
    elif which == "grid:scalar":
        bad = call(prog, y.copy(), cv, {"strategy": "last"} if search == "grid" else
                   {"strategy": 5})
    elif which == "grid:emptylist":
        bad = call(prog, y.copy(), cv, {"strategy": []})
    else:
        bad = call(prog, y.copy(), cv, {"not_a_param": [1, 2]})
    _judge(res, key, bad, good, lambda: bool(holder["f"].is_fitted), nt)


def _tts_cell(res, case, y, fh, nt):
    from sktime.forecasting.base import ForecastingHorizon
    from sktime.forecasting.model_selection import temporal_train_test_split as tts

    which = case["which"]
    key = "tts:" + which
    good = call(lambda: tts(y.copy(), fh=fh))
    if which == "fh+test_size":
        bad = call(lambda: tts(y.copy(), fh=fh, test_size=2))
    elif which == "fh+train_size":
        bad = call(lambda: tts(y.copy(), fh=fh, train_size=5))
    elif which == "fh:insample":
        bad = call(lambda: tts(y.copy(), fh=ForecastingHorizon([-1, 1])))
    elif which.startswith("fh:"):
        bad = call(lambda: tts(y.copy(), fh=_bad_fh(which[3:])))
    else:
        Xb = _X(y)
        Xb.index = Xb.index + 1
        if which == "x_longer":
            Xb = _X_longer(y)
        good = call(lambda: tts(y.copy(), _X(y), fh=fh))
        bad = call(lambda: tts(y.copy(), Xb, fh=fh))
    _judge(res, key, bad, good, None, nt)
