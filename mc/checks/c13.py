"""C13 - series transformers: invertible, index-preserving, aligned in time
(E2: histories fit -> [evaluate all stretches] -> update -> [evaluate] -> update -> [evaluate])."""
import numpy as np
import pandas as pd

from .. import fmenu
from ..core import Result, call, close

ID = "C13"
LEVEL = "model_checking"
ANCHORS = [
    "sktime/transformations/series/boxcox.py",
    "sktime/transformations/series/detrend/_detrend.py",
    "sktime/transformations/series/detrend/_deseasonalize.py",
    "sktime/transformations/series/adapt.py", "sktime/transformations/series/compose.py",
    "sktime/transformations/base.py", "sktime/utils/datetime.py", "sktime/utils/seasonality.py",
    "sktime/transformations/series/outlier_detection.py",
    "sktime/transformations/series/impute.py", "sktime/transformations/series/acf.py",
]
RULE = (
    "per transformer configuration (Box-Cox mle/pearsonr/bounds, Log, Detrender deg 1/2, "
    "Deseasonalizer and ConditionalDeseasonalizer sp 2..4 x additive/multiplicative x test "
    "outcome, tabular adaptor Standard/MinMax, OptionalPassthrough on/off, pipeline-as-"
    "transformer; index/shift clauses also Hampel, Imputer x 8 methods, Cosine, ACF, PACF) x "
    "training length m in {9,12} x update schedule (none / k1 / k1,k2 with k in 1..3 and "
    "update_params in {T,F}): after fit and after every update, EVERY stretch z[a:a+len] with "
    "a in 0..m+4, len in 1..5 (+ a gapped 5-point selection and the strided slices z[a::2], z[a::3] of 5 points per start) is transformed, inverse-transformed and compared with a twin "
    "whose labels are shifted by +7. states = (configuration, schedule prefix); transitions = "
    "transform / inverse / update calls on the real object."
)
ASSUMPTIONS = [
    "index kinds: RangeIndex (start 0/5), monthly PeriodIndex and daily DatetimeIndex; Imputer, "
    "ACF/PACF and (for DatetimeIndex) Detrender cannot run on the latter two in this environment",
    "round trip judged wherever transform(z) is finite",
    "ACF/PACF output is indexed by lag, not time: only values are compared under the +7 shift",
    "transformers with fit-in-transform that need a minimum length (Hampel, ACF, PACF) are "
    "given stretches of at least their documented minimum",
    "Detrender/adaptor parameters may change on update(update_params=True); only the "
    "seasonal component of the deseasonalizers is required to be update-invariant",
]


def _configs(tier):
    C = []
    for m in (["mle"], ["pearsonr"], ["mle", [0, 2]]):
        C.append(["boxcox"] + m)
    C += [["log"], ["detrend", 1], ["detrend", 2], ["std"], ["minmax"], ["std-df"], ["minmax-df"],
          ["opt", ["log"], False], ["opt", ["log"], True],
          ["opt", ["deseason", 3, "additive"], False]]
    for sp in (2, 3, 4):
        for model in ("additive", "multiplicative"):
            C.append(["deseason", sp, model])
            C.append(["cdeseason", sp, model, True])
        C.append(["cdeseason", sp, "additive", False])
    C.append(["ttfT", [["deseason", 3, "additive"], ["detrend", 1]]])
    C.append(["ttfT", [["log"], ["deseason", 2, "multiplicative"]]])
    # index / shift clauses only
    C += [["hampel", 3], ["hampel", 5], ["cos"], ["acf", 3], ["pacf", 2]]
    for meth in ("drift", "linear", "nearest", "constant", "mean", "median", "bfill", "ffill"):
        C.append(["imputer", meth])
    return C


def gen_cases(tier, seed):
    scheds = [[]]
    ks = (1, 2, 3)
    for k in ks:
        for up in (True, False):
            scheds.append([[k, up]])
    for k1 in ks:
        for k2 in (1, 3) if tier == "quick" else ks:
            for up in (True, False):
                scheds.append([[k1, up], [k2, up]])
    for cfg in _configs(tier):
        for m in (9, 12):
            for sched in scheds:
                if cfg[0] in ("hampel", "cos", "acf", "pacf", "imputer", "log") and len(sched) > 1:
                    continue
                yield dict(cfg=cfg, m=m, sched=sched, start=(0, 5)[(m + seed) % 2],
                           fam=seed % 2, ik="int")
                if len(sched) <= 1 and _sibling(cfg) is not None:
                    # the same object was fitted before with a sibling configuration
                    yield dict(cfg=cfg, m=m, sched=sched, start=0, fam=seed % 2, ik="int",
                               reused=True)
                for ik in ("period", "datetime"):
                    if cfg[0] in ("imputer", "acf", "pacf") or (
                            ik == "datetime" and (cfg[0] == "detrend" or cfg[0] == "ttfT")):
                        continue  # not supported for these index types in this environment
                    if len(sched) > 1 and cfg[0] not in ("deseason", "cdeseason"):
                        continue
                    yield dict(cfg=cfg, m=m, sched=sched, start=0, fam=seed % 2, ik=ik)


def _index(n, start, ik, shift=0):
    if ik == "period":
        return pd.period_range("2001-03", periods=n + shift, freq="M")[shift:]
    if ik == "datetime":
        return pd.date_range("2001-03-05", periods=n + shift, freq="D")[shift:]
    return pd.RangeIndex(start + shift, start + shift + n)


def _sibling(cfg):
    """parameters of a sibling configuration of the same class (for reuse histories)"""
    k = cfg[0]
    if k == "opt":
        return {"passthrough": not cfg[2]}
    if k in ("deseason", "cdeseason"):
        return {"sp": 2 if cfg[1] != 2 else 3,
                "model": "additive" if cfg[2] != "additive" else "multiplicative"}
    if k == "boxcox":
        return {"method": "pearsonr" if cfg[1] == "mle" else "mle"}
    if k == "detrend":
        return {"forecaster__degree": 3 - cfg[1]}
    return None


def _own_params(cfg):
    k = cfg[0]
    if k == "opt":
        return {"passthrough": cfg[2]}
    if k in ("deseason", "cdeseason"):
        return {"sp": cfg[1], "model": cfg[2]}
    if k == "boxcox":
        return {"method": cfg[1]}
    return {"forecaster__degree": cfg[1]}


def _series(n, fam, start, ik="int", shift=0):
    t = np.arange(n, dtype=float)
    v = 30.0 + 1.5 * t + 0.05 * t * t + np.array([4.0, -2.0, 1.0, -3.0, 2.5, 0.5, -1.5])[
        (t.astype(int) * (fam + 1)) % 7]
    return pd.Series(v, index=_index(n, start, ik, shift))


def _build(cfg):
    from sktime.forecasting.compose import TransformedTargetForecaster
    from sktime.forecasting.naive import NaiveForecaster
    from sktime.transformations.series.acf import (
        AutoCorrelationTransformer, PartialAutoCorrelationTransformer)
    from sktime.transformations.series.boxcox import BoxCoxTransformer
    from sktime.transformations.series.cos import CosineTransformer
    from sktime.transformations.series.outlier_detection import HampelFilter

    k = cfg[0]
    if k.endswith("-df"):
        return fmenu.build_t([k[:-3]])
    if k == "boxcox":
        return BoxCoxTransformer(method=cfg[1], bounds=tuple(cfg[2]) if len(cfg) > 2 else None)
    if k == "ttfT":
        return TransformedTargetForecaster(
            [("t%d" % i, fmenu.build_t(s)) for i, s in enumerate(cfg[1])] +
            [("f", NaiveForecaster())])
    if k == "hampel":
        return HampelFilter(window_length=cfg[1])
    if k == "cos":
        return CosineTransformer()
    if k == "acf":
        return AutoCorrelationTransformer(n_lags=cfg[1])
    if k == "pacf":
        return PartialAutoCorrelationTransformer(n_lags=cfg[1])
    return fmenu.build_t(cfg)


def _minlen(cfg):
    if cfg[0] == "hampel":
        return cfg[1] + 1
    if cfg[0] in ("acf",):
        return cfg[1] + 2
    if cfg[0] == "pacf":
        return 2 * cfg[1] + 3
    return 1


def _has_tag(t, name):
    from sktime.utils import _has_tag as h

    return h(t, name)


def _evaluate(res, tag, cfg, t, t7, z, z7, m, comp_ref, stage):
    """all stretches on the current state of t (and its +7 twin t7)"""
    sp = cfg[1] if cfg[0] in ("deseason", "cdeseason") else None
    mult = sp is not None and cfg[2] == "multiplicative"
    active = cfg[0] == "deseason" or (cfg[0] == "cdeseason" and cfg[3])
    same_index = _has_tag(t, "transform-returns-same-time-index") or cfg[0] == "ttfT"
    lag_indexed = cfg[0] in ("acf", "pacf")
    has_inv = hasattr(t, "inverse_transform") and cfg[0] not in ("hampel", "imputer", "cos")
    minlen = _minlen(cfg)
    pos = {lab: i for i, lab in enumerate(z.index)}
    pos7 = {lab: i for i, lab in enumerate(z7.index)}
    GAPS = [0, 2, 3, 6, 9]  # as many points as the longest contiguous stretch of that start
    gapped_ok = cfg[0] in ("deseason", "cdeseason", "log", "boxcox", "std", "minmax", "opt",
                           "cos", "std-df", "minmax-df")
    stretches = []
    for a in range(0, m + 5):
        for ln in range(max(1, minlen), max(6, minlen + 3)):
            if a + ln <= len(z):
                stretches.append((a, ln, None))
        if gapped_ok and a + GAPS[-1] < len(z):
            # same start and same number of points as the contiguous stretch (a, 5), but with
            # gaps: evaluated right after it
            stretches.append((a, 5, [a + g for g in GAPS]))
        if gapped_ok:
            # every k-th point, taken as a SLICE (keeps a RangeIndex with step k / a regular
            # coarser Period- or DatetimeIndex)
            for k in (2, 3):
                if a + 4 * k < len(z):
                    stretches.append((a, 5, slice(a, a + 4 * k + 1, k)))
    for a, ln, sel in stretches:
        if True:
            x, x7 = (z.iloc[a:a + ln], z7.iloc[a:a + ln]) if sel is None else \
                (z.iloc[sel], z7.iloc[sel])
            if cfg[0] == "imputer" and ln >= 3:
                x, x7 = x.copy(), x7.copy()
                x.iloc[1] = np.nan
                x7.iloc[1] = np.nan
            res.transitions += 2
            o, o7 = call(t.transform, x.copy()), call(t7.transform, x7.copy())
            H = dict(stage=stage, a=a, len=ln, gapped=sel is not None)
            if not o.ok or not o7.ok:
                if o.ok != o7.ok:
                    res.violate(tag + ":shift:raises", "transform raises for one of the "
                                "original / +7 shifted inputs only",
                                observed=dict(orig=o.brief(), shifted=o7.brief(), **H))
                    return True
                if cfg[0] in ("boxcox", "log", "deseason", "cdeseason", "detrend", "std",
                              "minmax", "opt", "ttfT", "cos", "imputer", "std-df", "minmax-df"):
                    res.violate(tag + ":transform:raises", "transform raised on a valid "
                                "stretch", observed=dict(error=o.brief(), **H))
                    return True
                continue
            xt, xt7 = o.value, o7.value
            if same_index and list(xt.index) != list(x.index):
                res.violate(tag + ":index", "index-preserving transformer changed the index",
                            expected=list(x.index), observed=dict(index=list(xt.index), **H))
                return True
            if not close(np.asarray(xt, float), np.asarray(xt7, float), rtol=1e-8, atol=1e-10) or \
                    (not lag_indexed and [pos.get(i) for i in xt.index] !=
                     [pos7.get(i) for i in xt7.index]):
                res.violate(tag + ":shift", "shifting the time index by +7 changes the output "
                            "values or does not shift the output index",
                            expected=dict(index=[str(i) for i in xt.index], values=list(xt.values)),
                            observed=dict(index=[str(i) for i in xt7.index],
                                          values=list(xt7.values), **H))
                return True
            if sp is not None:
                comp = (x / xt) if mult else (x - xt)
                for lab, c in comp.items():
                    e = comp_ref[pos[lab] % sp] if active else (1.0 if mult else 0.0)
                    if not close([c], [e], rtol=1e-8, atol=1e-9):
                        res.violate(tag + ":phase", "seasonal component at a time point does "
                                    "not depend only on its position modulo the period "
                                    "relative to the training series", expected=e,
                                    observed=dict(component=float(c), time=str(lab), **H))
                        return True
            if has_inv:
                res.transitions += 1
                r = call(t.inverse_transform, xt.copy())
                if not r.ok:
                    res.violate(tag + ":inverse:raises", "inverse_transform raised",
                                observed=dict(error=r.brief(), **H))
                    return True
                fin = np.isfinite(np.asarray(xt, float))
                got, want = np.asarray(r.value, float)[fin], np.asarray(x, float)[fin]
                okrt = close(got, want, rtol=1e-9, atol=1e-9)
                if not okrt and cfg[0] == "boxcox":
                    # floating-point error of an ill-conditioned map: for a large fitted |lambda|
                    # one ulp of transform(z) moves the inverse by much more than one ulp of z.
                    # Allow 64 times the change caused by perturbing the transformed value by 1 ulp.
                    from scipy.special import inv_boxcox

                    yt = np.asarray(xt, float)[fin]
                    lam = float(t.lambda_)
                    spread = np.abs(inv_boxcox(np.nextafter(yt, np.inf), lam) -
                                    inv_boxcox(np.nextafter(yt, -np.inf), lam))
                    okrt = bool(np.all(np.abs(got - want) <= 64 * spread + 1e-9 * np.abs(want)))
                if list(r.value.index) != list(x.index) or not okrt:
                    res.violate(tag + ":roundtrip", "inverse_transform(transform(z)) != z",
                                expected=x, observed=dict(result=r.value, **H))
                    return True
    return False


def run_case(case):
    res = Result()
    cfg, m, sched, start = case["cfg"], case["m"], case["sched"], case["start"]
    ik = case.get("ik", "int")
    tag = cfg[0] + (":%s" % cfg[2] if cfg[0] in ("deseason", "cdeseason") else "") + \
        ("" if ik == "int" else ":" + ik)
    z = _series(m + 12, case["fam"], start, ik)
    z7 = _series(m + 12, case["fam"], start, ik, shift=7)
    if cfg[0].endswith("-df"):
        # multivariate input: the wrapped tabular transformer works column by column
        z = pd.DataFrame({"a": z, "b": z * 0.5 - 3.0, "c": (z - 40.0) ** 2 / 50.0})
        z7 = pd.DataFrame({"a": z7, "b": z7 * 0.5 - 3.0, "c": (z7 - 40.0) ** 2 / 50.0})
    t, t7, t2 = _build(cfg), _build(cfg), _build(cfg)
    if case.get("reused"):
        tag += ":reused"
        for obj, zz in ((t, z), (t7, z7)):
            obj.set_params(**_sibling(cfg))
            call(lambda: obj.fit(zz.iloc[2:m + 1].copy()).transform(zz.iloc[1:7].copy()))
            obj.set_params(**_own_params(cfg))
    is_ttf = cfg[0] == "ttfT"
    f = call(lambda: (t.fit(z.iloc[:m].copy()), t7.fit(z7.iloc[:m].copy())))
    res.transitions += 2
    if not f.ok:
        res.violate(tag + ":fit:raises", "fit raised", observed=f.brief())
        return res
    res.states += 1
    # fit_transform == fit().transform()
    if not is_ttf and _minlen(cfg) <= m:
        a = call(lambda: t2.fit_transform(z.iloc[:m].copy()))
        b = call(lambda: t.transform(z.iloc[:m].copy()))
        if a.ok != b.ok or (a.ok and (list(a.value.index) != list(b.value.index) or not close(
                np.asarray(a.value, float), np.asarray(b.value, float), rtol=1e-10))):
            res.violate(tag + ":fit_transform", "fit_transform differs from fit().transform()",
                        expected=b.value if b.ok else b.brief(),
                        observed=a.value if a.ok else a.brief())
            return res
    comp_ref = None
    if cfg[0] in ("deseason", "cdeseason"):
        sp = cfg[1]
        zt = t.transform(z.iloc[:m].copy())
        comp = (z.iloc[:m] / zt) if cfg[2] == "multiplicative" else (z.iloc[:m] - zt)
        comp_ref = [float(v) for v in comp.values[:sp]]
    if _evaluate(res, tag, cfg, t, t7, z, z7, m, comp_ref, "fit"):
        return res
    pos = m
    for j, (k, up) in enumerate(sched):
        if not hasattr(t, "update"):
            break
        b, b7 = z.iloc[pos:pos + k], z7.iloc[pos:pos + k]
        res.transitions += 2
        u = call(lambda: (t.update(b.copy(), update_params=up),
                          t7.update(b7.copy(), update_params=up)))
        if not u.ok:
            res.violate(tag + ":update:raises", "update raised on in-order data",
                        observed=u.brief())
            return res
        pos += k
        res.states += 1
        if _evaluate(res, tag, cfg, t, t7, z, z7, m, comp_ref, "update%d" % (j + 1)):
            return res
    res.nt((str(cfg), m, str(sched), ik, bool(case.get("reused"))))
    res.outcome(tag)
    return res
