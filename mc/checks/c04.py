"""C04 - every estimator obeys the scikit-learn protocol: parameters, clone, fitted state
(E2: per class, the state machine constructed/fitted explored over set_params / clone / fit /
apply histories; constructor contract over a type-directed alternative-value menu)."""
import inspect
import itertools
import pickle

import numpy as np
import pandas as pd

from ..core import Result, call

ID = "C04"
LEVEL = "model_checking"
ANCHORS = [
    "sktime/base/_base.py", "sktime/base/_meta.py", "sktime/exceptions.py",
    "sktime/forecasting/base/_meta.py", "sktime/forecasting/base/_sktime.py",
    "sktime/transformations/base.py", "sktime/classification/base.py",
    "sktime/forecasting/compose/*.py", "sktime/forecasting/model_selection/_tune.py",
    "sktime/classification/compose/_column_ensemble.py",
    "sktime/series_as_features/compose/_pipeline.py",
    "sktime/transformations/series/detrend/*.py",
]
RULE = (
    "programs = all classes returned by all_estimators() (constructed with the repository's "
    "ESTIMATOR_TEST_PARAMS fixture or defaults; classes whose binary/soft dependency is absent "
    "are importable through stubs and covered at construct level) + a menu of composites up to "
    "nesting depth 2. kind=ctor: class x constructor parameter x alternative value from a "
    "type-directed menu (int->d+1, float->d/2+.25, bool->not d, None/str/other->sentinel object "
    "and int, estimator->other estimator). kind=hist: for every class every history of length "
    "<=4 over {set_params, clone, fit, apply(m)} (fit/apply only for runnable classes) with the "
    "state invariants evaluated after every step; state = (class, fitted?, parameter digest). "
    "kind=nested: every name__param key of get_params(deep=True) of every composite written "
    "and read back, every component replaced by name. non-trivial = distinct (class, param, "
    "alt) / (class, history)."
)
ASSUMPTIONS = [
    "metric wrapper classes derive from scikit-learn's BaseEstimator and are C06's subject",
    "runnable set = classes whose fit succeeds in this environment (listed in RUNNABLE); all "
    "others are construct-level only",
    "alternative values for which the constructor itself raises are skipped (constructor "
    "validation is allowed)",
]


class Sentinel:
    """arbitrary user object used as a constructor argument"""

    def __init__(self, k="s"):
        self.k = k

    def __eq__(self, other):
        return isinstance(other, Sentinel) and other.k == self.k

    def __hash__(self):
        return hash(self.k)

    def __repr__(self):
        return "Sentinel(%r)" % self.k


RUNNABLE = """AutoCorrelationTransformer AutoETS BOSSEnsemble BoxCoxTransformer ColumnConcatenator
ColumnEnsembleClassifier ConditionalDeseasonalizer ContractableBOSS CosineTransformer
DWTTransformer DerivativeSlopeTransformer Deseasonalizer Detrender
DirRecTabularRegressionForecaster DirRecTimeSeriesRegressionForecaster
DirectTabularRegressionForecaster DirectTimeSeriesRegressionForecaster EnsembleForecaster
ExponentialSmoothing FittedParamExtractor ForecastingGridSearchCV
ForecastingRandomizedSearchCV HOG1DTransformer HampelFilter Imputer IndividualBOSS
IntervalSegmenter LogTransformer MUSE MatrixProfile MeanTransformer
MultioutputTabularRegressionForecaster MultioutputTimeSeriesRegressionForecaster
MultiplexForecaster NaiveForecaster OnlineEnsembleForecaster OptionalPassthrough PAA
PCATransformer PaddingTransformer PartialAutoCorrelationTransformer PlateauFinder
PolynomialTrendForecaster RandomIntervalFeatureExtractor RandomIntervalSegmenter
RecursiveTabularRegressionForecaster RecursiveTimeSeriesRegressionForecaster SAX SFA
SeriesToPrimitivesRowTransformer SeriesToSeriesRowTransformer SlidingWindowSegmenter
SlopeTransformer StackingForecaster SupervisedTimeSeriesForest TSInterpolator
TabularToSeriesAdaptor Tabularizer ThetaForecaster TimeSeriesForestClassifier
TimeSeriesForestRegressor TransformedTargetForecaster TruncationTransformer""".split()

APPLY = ["predict", "predict_proba", "transform", "inverse_transform", "update",
         "update_predict", "update_predict_single", "score"]

_REG = {}


def _registry():
    if not _REG:
        from sktime.tests._config import ESTIMATOR_TEST_PARAMS
        from sktime.utils import all_estimators

        for n, c in all_estimators():
            _REG[n] = (c, dict(ESTIMATOR_TEST_PARAMS.get(c, {})))
    return _REG


def _kind(c):
    from sktime.classification.base import BaseClassifier
    from sktime.forecasting.base import BaseForecaster
    from sktime.regression.base import BaseRegressor
    from sktime.transformations.base import (
        _SeriesToPrimitivesTransformer, _SeriesToSeriesTransformer)

    if issubclass(c, BaseForecaster):
        return "forecaster"
    if issubclass(c, BaseClassifier):
        return "classifier"
    if issubclass(c, BaseRegressor):
        return "regressor"
    if issubclass(c, (_SeriesToSeriesTransformer, _SeriesToPrimitivesTransformer)):
        return "series"
    return "panel"


def _ctor_params(c):
    sig = inspect.signature(c.__init__)
    return [(p.name, p.default) for p in sig.parameters.values()
            if p.name != "self" and p.kind not in (p.VAR_KEYWORD, p.VAR_POSITIONAL)]


def _alts(name, default, base_value):
    from sklearn.base import BaseEstimator
    from sktime.forecasting.naive import NaiveForecaster

    b = base_value
    if isinstance(b, list) and b and all(isinstance(x, tuple) for x in b):
        return [list(reversed(b))]  # named steps: a different but well-formed list
    if isinstance(b, bool):
        return [not b]
    if isinstance(b, (int, np.integer)):
        # also as a numpy scalar (an element of np.arange(...) in a parameter grid)
        return [int(b) + 1, np.int64(int(b) + 1)]
    if isinstance(b, float):
        return [b / 2 + 0.25, np.float64(b / 2 + 0.25)]
    if isinstance(b, BaseEstimator):
        return [NaiveForecaster(strategy="drift"), Sentinel("est")]
    if b is None:
        return [Sentinel("none"), 3]
    if isinstance(b, str):
        lits = {"strategy": ["last", "mean", "drift"], "model": ["additive", "multiplicative"],
                "aggfunc": ["mean", "median", "min", "max"], "method": ["mle", "pearsonr", "drift",
                                                                         "mean", "median", "linear"]}
        return [Sentinel("other")] + [v for v in lits.get(name, []) if v != b]
    return [Sentinel("other")]


def gen_cases(tier, seed):
    reg = _registry()
    for name in sorted(reg):
        c, base = reg[name]
        yield dict(kind="basic", cls=name)
        for p, d in _ctor_params(c):
            b = base.get(p, d)
            if b is inspect.Parameter.empty:
                continue
            for ai in range(len(_alts(p, d, b))):
                yield dict(kind="ctor", cls=name, param=p, alt=ai)
    ops = ["S", "K", "F", "A"]
    for name in sorted(reg):
        run = name in RUNNABLE
        alphabet = ops if run else ["S", "K", "A"]
        depth = 4 if tier != "quick" or name in ("NaiveForecaster", "Detrender", "Deseasonalizer",
                                                 "EnsembleForecaster", "TimeSeriesForestClassifier",
                                                 "TransformedTargetForecaster", "PAA") else 3
        if not run:
            depth = min(depth, 3)
        for d in range(1, depth + 1):
            for h in itertools.product(alphabet, repeat=d):
                yield dict(kind="hist", cls=name, hist="".join(h))
    for name in sorted(reg):
        c, base = reg[name]
        if name in RUNNABLE:
            if all(d is not inspect.Parameter.empty for _, d in _ctor_params(c)):
                for h in ("F", "FA", "KFK", "FKA"):
                    yield dict(kind="hist", cls=name, hist=h, defaults=True)
            if _kind(c) in ("panel", "classifier", "regressor"):
                yield dict(kind="hist", cls=name, hist="F", short=True)
    for k in range(len(_composites())):
        yield dict(kind="nested", which=k)


# ------------------------------------------------------------------------------- data
def _data(kind):
    t = np.arange(20.0)
    y = pd.Series(20 + 1.5 * t + np.array([3.0, -1, 0.5, 1.5])[t.astype(int) % 4])
    if kind in ("forecaster", "series"):
        return y
    from sktime.utils.data_processing import from_3d_numpy_to_nested

    r = np.arange(12 * 24).reshape(12, 1, 24).astype(float)
    P = np.sin(r / 3.0) + (np.arange(12) % 2)[:, None, None] * 1.5 + 0.01 * r
    return from_3d_numpy_to_nested(P), np.array([0, 1] * 6), np.arange(12.0)


def _fit(est, kind, short=False):
    import joblib

    if short:
        from sktime.utils.data_processing import from_3d_numpy_to_nested

        P = np.arange(12 * 2, dtype=float).reshape(12, 1, 2) + (np.arange(12) % 2)[:, None, None]
        with joblib.parallel_backend("threading"):
            return est.fit(from_3d_numpy_to_nested(P),
                           np.arange(12.0) if kind == "regressor" else np.array([0, 1] * 6))

    with joblib.parallel_backend("threading"):
        if kind == "forecaster":
            return est.fit(_data(kind).copy(), fh=[1, 2])
        if kind == "series":
            return est.fit(_data(kind).copy())
        X, yc, yr = _data(kind)
        return est.fit(X.copy(), yr if kind == "regressor" else yc)


def _apply_calls(est, kind):
    """(method name, thunk) for every apply-type method the object exposes"""
    out = []
    if kind == "forecaster":
        y = _data(kind)
        y_new = pd.Series([51.0, 52.5], index=pd.RangeIndex(20, 22))
        args = dict(predict=lambda: est.predict(),
                    update=lambda: est.update(y_new.copy()),
                    update_predict=lambda: est.update_predict(y_new.copy()),
                    update_predict_single=lambda: est.update_predict_single(y_new.copy()),
                    score=lambda: est.score(y_new.copy(), fh=[1, 2]),
                    transform=lambda: est.transform(y.copy()),
                    inverse_transform=lambda: est.inverse_transform(y.copy()))
    elif kind == "series":
        y = _data(kind)
        args = dict(transform=lambda: est.transform(y.copy()),
                    inverse_transform=lambda: est.inverse_transform(y.copy()),
                    update=lambda: est.update(y.iloc[-3:].copy()))
    else:
        X, yc, yr = _data(kind)
        yy = yr if kind == "regressor" else yc
        args = dict(transform=lambda: est.transform(X.copy()),
                    inverse_transform=lambda: est.inverse_transform(X.copy()),
                    predict=lambda: est.predict(X.copy()),
                    predict_proba=lambda: est.predict_proba(X.copy()),
                    score=lambda: est.score(X.copy(), yy))
    for m in APPLY:
        if m in args and call(lambda: getattr(est, m)).ok and callable(getattr(est, m, None)):
            out.append((m, args[m]))
    return out


def _same(a, b):
    """parameter equality: identity, ==, arrays, estimators by type + params"""
    from sklearn.base import BaseEstimator

    if a is b:
        return True
    if isinstance(a, BaseEstimator) and isinstance(b, BaseEstimator):
        if type(a) is not type(b):
            return False
        pa, pb = a.get_params(deep=False), b.get_params(deep=False)
        return pa.keys() == pb.keys() and all(_same(pa[k], pb[k]) for k in pa)
    if isinstance(a, (list, tuple)) and isinstance(b, (list, tuple)) and len(a) == len(b):
        return type(a) is type(b) and all(_same(x, y) for x, y in zip(a, b))
    if isinstance(a, np.ndarray) or isinstance(b, np.ndarray):
        return isinstance(a, np.ndarray) and isinstance(b, np.ndarray) and np.array_equal(a, b)
    if isinstance(a, dict) and isinstance(b, dict):
        return a.keys() == b.keys() and all(_same(a[k], b[k]) for k in a)
    try:
        r = a == b
        if isinstance(r, (bool, np.bool_)) and bool(r):
            return True
    except Exception:
        pass
    if callable(a) and callable(b) and not hasattr(a, "__dict__"):
        return getattr(a, "__name__", 1) == getattr(b, "__name__", 2)
    if type(a) is type(b) and hasattr(a, "__dict__") and hasattr(b, "__dict__"):
        va, vb = vars(a), vars(b)
        return va.keys() == vb.keys() and all(_same(va[k], vb[k]) for k in va)
    return type(a) is type(b) and repr(a) == repr(b)


def _pdig(est):
    out = {}
    for k, v in est.get_params(deep=False).items():
        try:
            out[k] = (id(v), pickle.dumps(v))
        except Exception:
            out[k] = (id(v), repr(v))
    return out


def _is_notfitted(o):
    from sklearn.exceptions import NotFittedError as SkNF
    from sktime.exceptions import NotFittedError

    return o.is_a(NotFittedError, SkNF)


# ------------------------------------------------------------------------------ cases
def run_case(case):
    res = Result()
    k = case["kind"]
    if k == "nested":
        return _nested(case, res)
    reg = _registry()
    c, base = reg[case["cls"]]
    name = case["cls"]
    kind = _kind(c)
    if k == "basic":
        return _basic(res, name, c, base, kind)
    if k == "ctor":
        return _ctor(res, name, c, base, case)
    if case.get("defaults"):
        base = {}
    return _hist(res, name, c, base, kind, case["hist"], short=case.get("short", False))


def _basic(res, name, c, base, kind):
    from sklearn.base import clone

    o = call(lambda: c(**base))
    if not o.ok:
        res.violate(name + ":construct", "class cannot be constructed with its fixture "
                    "parameters", observed=o.brief())
        return res
    est = o.value
    res.nt((name, "basic"))
    res.outcome("basic:" + kind)
    gp = call(lambda: est.get_params(deep=False))
    if not gp.ok:
        res.violate(name + ":get_params", "get_params raised", observed=gp.brief())
        return res
    names = {p for p, _ in _ctor_params(c)}
    if set(gp.value) != names:
        res.violate(name + ":get_params:keys", "get_params keys != constructor arguments",
                    expected=sorted(names), observed=sorted(gp.value))
    for p, v in base.items():
        if p in gp.value and gp.value[p] is not v:
            res.violate(name + ":get_params:identity:" + p, "get_params does not return the "
                        "object that was passed", expected=repr(v)[:80],
                        observed=repr(gp.value[p])[:80])
    u = call(lambda: est.set_params(definitely_not_a_parameter_=1))
    if not u.is_a(ValueError):
        res.violate(name + ":unknown-param", "unknown parameter name not rejected with "
                    "ValueError", observed=u.brief())
    cl = call(lambda: clone(est))
    if not cl.ok:
        res.violate(name + ":clone", "clone raised", observed=cl.brief())
    else:
        a, b = est.get_params(deep=False), cl.value.get_params(deep=False)
        bad = [p for p in a if not _same(a[p], b.get(p))]
        if bad or a.keys() != b.keys():
            res.violate(name + ":clone:params", "clone does not reproduce equal parameters",
                        observed=bad)
        if hasattr(cl.value, "is_fitted") and cl.value.is_fitted is not False:
            res.violate(name + ":clone:is_fitted", "cloned estimator reports is_fitted",
                        observed=cl.value.is_fitted)
    return res


def _ctor(res, name, c, base, case):
    from sklearn.base import clone

    p = case["param"]
    params = dict(_ctor_params(c))
    b = base.get(p, params[p])
    alt = _alts(p, params[p], b)[case["alt"]]
    kw = dict(base)
    kw[p] = alt
    o = call(lambda: c(**kw))
    res.outcome("ctor:" + o.kind)
    if not o.ok:
        return res  # constructor validation is allowed
    est = o.value
    res.nt((name, p, case["alt"]))
    gp = call(lambda: est.get_params(deep=False))
    if not gp.ok:
        res.violate(name + ":get_params", "get_params raised", observed=gp.brief())
        return res
    if gp.value.get(p, "<missing>") is not alt:
        res.violate("%s:ctor:%s" % (name, p), "constructor argument is not stored under its own "
                    "name (get_params does not return what was passed)",
                    expected=repr(alt), observed=repr(gp.value.get(p, "<missing>"))[:100])
        return res
    for q, v in kw.items():
        if q in gp.value and gp.value[q] is not v:
            res.violate("%s:ctor:%s:other:%s" % (name, p, q), "another constructor argument "
                        "changed", expected=repr(v)[:80], observed=repr(gp.value[q])[:80])
            return res
    # set_params(**get_params()) on a second instance reproduces the same objects
    o2 = call(lambda: c(**base).set_params(**gp.value))
    if not o2.ok:
        res.violate("%s:set_params:roundtrip" % name, "set_params(**get_params()) raised",
                    observed=dict(param=p, error=o2.brief()))
        return res
    g2 = o2.value.get_params(deep=False)
    bad = [q for q in gp.value if g2.get(q, "<missing>") is not gp.value[q]]
    if bad:
        res.violate("%s:set_params:roundtrip" % name, "set_params(**get_params()) does not "
                    "reproduce the parameters", observed=bad)
    if o2.value is None:
        res.violate("%s:set_params:self" % name, "set_params does not return the estimator")
    if name in RUNNABLE and not isinstance(alt, Sentinel):
        # fit with this assignment (if the estimator accepts it): parameters stay as passed
        est_f = call(lambda: c(**kw))
        if est_f.ok:
            before = _pdig(est_f.value)
            f = call(_fit, est_f.value, _kind(c))
            if f.ok:
                after = _pdig(est_f.value)
                changed = sorted(q for q in before if before[q][0] != after.get(q, (None,))[0] or
                                 before[q][1] != after[q][1])
                if changed:
                    res.violate("%s:fit:params-changed:%s" % (name, ",".join(changed)),
                                "fit changed constructor parameters",
                                observed=dict(assignment={p: repr(alt)}, params=changed))
    cl = call(lambda: clone(est))
    if not cl.ok:
        res.violate("%s:clone:%s" % (name, p), "clone raised with a valid constructor "
                    "argument", observed=dict(alt=repr(alt), error=cl.brief()))
    else:
        g3 = cl.value.get_params(deep=False)
        bad = [q for q in gp.value if not _same(gp.value[q], g3.get(q))]
        if bad:
            res.violate("%s:clone:params" % name, "clone does not reproduce equal parameters",
                        observed=bad)
    return res


def _check_state(res, name, kind, est, fitted, hist_so_far, runnable):
    H = dict(history=hist_so_far)
    if hasattr(est, "is_fitted"):
        if bool(est.is_fitted) != fitted:
            res.violate(name + ":is_fitted", "is_fitted does not reflect the state",
                        expected=fitted, observed=dict(is_fitted=est.is_fitted, **H))
            return False
    return True


def _hist(res, name, c, base, kind, hist, short=False):
    from sklearn.base import clone

    runnable = name in RUNNABLE
    o = call(lambda: c(**base))
    if not o.ok:
        return res
    est = o.value
    fitted = False
    res.states = 1
    res.nt((name, hist))
    sofar = ""
    for ch in hist:
        sofar += ch
        res.transitions += 1
        if ch == "S":
            # set every parameter to its current value: must be accepted and change nothing
            g = call(lambda: est.get_params(deep=False))
            if not g.ok:
                res.violate(name + ":get_params", "get_params raised", observed=g.brief())
                return res
            cur = g.value
            s = call(lambda: est.set_params(**cur))
            if not s.ok:
                res.violate(name + ":set_params:roundtrip", "set_params(**get_params()) "
                            "raised", observed=dict(history=sofar, error=s.brief()))
                return res
            if s.value is not est:
                res.violate(name + ":set_params:self", "set_params does not return self",
                            observed=sofar)
            now = est.get_params(deep=False)
            bad = [p for p in cur if now.get(p, "<missing>") is not cur[p]]
            if bad:
                res.violate(name + ":set_params:identity", "set_params(**get_params()) "
                            "changed parameters", observed=dict(history=sofar, params=bad))
        elif ch == "K":
            k = call(lambda: clone(est))
            if not k.ok:
                res.violate(name + ":clone", "clone raised", observed=dict(history=sofar,
                                                                           error=k.brief()))
                return res
            a, b = est.get_params(deep=False), k.value.get_params(deep=False)
            bad = [p for p in a if not _same(a[p], b.get(p))]
            if bad:
                res.violate(name + ":clone:params", "clone does not reproduce equal parameters",
                            observed=dict(history=sofar, params=bad))
            est = k.value
            fitted = False
        elif ch == "F":
            before = _pdig(est)
            f = call(_fit, est, kind, short)
            if not f.ok and short:
                return res  # very short series may legitimately be rejected
            if not f.ok:
                res.violate(name + ":fit:raises", "fit raised for a runnable estimator",
                            observed=dict(history=sofar, error=f.brief()))
                return res
            if f.value is not est:
                res.violate(name + ":fit:self", "fit does not return the estimator itself",
                            observed=sofar)
            after = _pdig(est)
            changed = [p for p in before if before[p][0] != after.get(p, (None,))[0] or
                       before[p][1] != after[p][1]]
            if changed:
                res.violate(name + ":fit:params-changed:" + ",".join(sorted(changed)),
                            "fit changed constructor parameters", observed=dict(
                                history=sofar, params=changed))
            fitted = True
        else:  # apply every method the object exposes
            for m, thunk in _apply_calls(est, kind):
                a = call(thunk)
                if not fitted:
                    if not _is_notfitted(a):
                        res.violate("%s:unfitted:%s" % (name, m), "apply-type method on an "
                                    "unfitted estimator does not raise NotFittedError",
                                    expected="NotFittedError",
                                    observed=dict(history=sofar, outcome=a.brief()))
                elif _is_notfitted(a):
                    res.violate("%s:fitted:%s" % (name, m), "apply-type method raises "
                                "NotFittedError on a fitted estimator",
                                observed=dict(history=sofar, outcome=a.brief()))
            if fitted and kind == "forecaster":
                # update moved the state; rebuild a comparable fitted state for later steps
                pass
        res.states += 1
        if not _check_state(res, name, kind, est, fitted, sofar, runnable):
            return res
    res.outcome("hist:%s:%s" % (kind, "run" if runnable else "construct-only"))
    return res


# --------------------------------------------------------------------------- composites
def _composites():
    from sklearn.preprocessing import StandardScaler
    from sktime.classification.compose import ColumnEnsembleClassifier
    from sktime.classification.interval_based import TimeSeriesForestClassifier
    from sktime.forecasting.compose import (
        EnsembleForecaster, MultiplexForecaster, StackingForecaster,
        TransformedTargetForecaster)
    from sktime.forecasting.model_selection import (
        ForecastingGridSearchCV, ForecastingRandomizedSearchCV, SlidingWindowSplitter)
    from sktime.forecasting.naive import NaiveForecaster
    from sktime.forecasting.trend import PolynomialTrendForecaster
    from sklearn.pipeline import Pipeline
    from sktime.series_as_features.compose import FeatureUnion
    from sktime.transformations.panel.compose import SeriesToSeriesRowTransformer
    from sktime.transformations.panel.reduce import Tabularizer
    from sktime.transformations.panel.padder import PaddingTransformer
    from sktime.transformations.series.adapt import TabularToSeriesAdaptor
    from sktime.transformations.series.boxcox import LogTransformer
    from sktime.transformations.series.compose import OptionalPassthrough
    from sktime.transformations.series.detrend import Deseasonalizer, Detrender
    from .. import doubles

    cv = SlidingWindowSplitter(fh=[1], window_length=6)
    ens = lambda: EnsembleForecaster([("a", NaiveForecaster()), ("b", PolynomialTrendForecaster())])  # noqa
    ttf = lambda: TransformedTargetForecaster([("d", Deseasonalizer(sp=2)),  # noqa
                                               ("f", NaiveForecaster())])
    return [
        ens,
        ttf,
        lambda: StackingForecaster([("a", NaiveForecaster()), ("b", NaiveForecaster("drift"))],
                                   final_regressor=doubles.LinearExact()),
        lambda: MultiplexForecaster([("a", NaiveForecaster()), ("b", PolynomialTrendForecaster())],
                                    selected_forecaster="a"),
        lambda: ForecastingGridSearchCV(NaiveForecaster(), cv=cv, param_grid={"sp": [1, 2]}),
        lambda: ForecastingRandomizedSearchCV(ttf(), cv=cv,
                                              param_distributions={"d__sp": [1, 2]}),
        lambda: ColumnEnsembleClassifier([("t", TimeSeriesForestClassifier(n_estimators=3), [0])]),
        lambda: Pipeline([("p", PaddingTransformer()), ("t", Tabularizer()),
                          ("s", StandardScaler())]),
        lambda: FeatureUnion([("p", PaddingTransformer()), ("q", PaddingTransformer(fill_value=1))]),
        lambda: Detrender(PolynomialTrendForecaster(degree=2)),
        lambda: OptionalPassthrough(LogTransformer()),
        lambda: TabularToSeriesAdaptor(StandardScaler()),
        lambda: SeriesToSeriesRowTransformer(LogTransformer()),
        # depth 2
        lambda: EnsembleForecaster([("e", ens()), ("t", ttf())]),
        lambda: TransformedTargetForecaster([("o", OptionalPassthrough(Deseasonalizer(sp=2))),
                                             ("f", ens())]),
        lambda: MultiplexForecaster([("g", ForecastingGridSearchCV(NaiveForecaster(), cv=cv,
                                                                   param_grid={"sp": [1]})),
                                     ("t", ttf())], selected_forecaster="t"),
        lambda: ForecastingGridSearchCV(ens(), cv=cv, param_grid={"a__sp": [1, 2]}),
    ]


def _nested(case, res):
    from sklearn.base import BaseEstimator
    from sktime.forecasting.naive import NaiveForecaster

    make = _composites()[case["which"]]
    est = make()
    name = type(est).__name__ + "#%d" % case["which"]
    deep = call(lambda: est.get_params(deep=True))
    if not deep.ok:
        res.violate(name + ":get_params:deep", "get_params(deep=True) raised",
                    observed=deep.brief())
        return res
    keys = sorted(deep.value)
    res.outcome("nested:%d" % min(len(keys) // 10, 9))
    for key in keys:
        if "__" not in key:
            continue
        res.transitions += 1
        res.states += 1
        est = make()
        cur = est.get_params(deep=True)[key]
        if isinstance(cur, bool):
            new = not cur
        elif isinstance(cur, (int, np.integer)):
            new = int(cur) + 1
        elif isinstance(cur, float):
            new = cur / 2 + 0.25
        elif isinstance(cur, BaseEstimator):
            continue
        elif isinstance(cur, list) and cur and all(isinstance(x, tuple) for x in cur):
            new = list(reversed(cur))
        else:
            new = Sentinel(key)
        s = call(lambda: est.set_params(**{key: new}))
        if not s.ok:
            res.violate(name + ":nested:set:" + key, "set_params(component__param=...) raised",
                        observed=s.brief())
            continue
        res.nt((name, key))
        back = est.get_params(deep=True).get(key, "<missing>")
        if back is not new and back != new:
            res.violate(name + ":nested:readback:" + key, "nested parameter not read back from "
                        "the composite", expected=repr(new), observed=repr(back)[:100])
            continue
        # ... and from the component itself
        comp_path, _, leaf = key.rpartition("__")
        comp = est.get_params(deep=True).get(comp_path)
        if isinstance(comp, BaseEstimator):
            got = comp.get_params(deep=False).get(leaf, "<missing>")
            if got is not new and got != new:
                res.violate(name + ":nested:component:" + key, "nested write did not reach the "
                            "component's own parameter", expected=repr(new),
                            observed=repr(got)[:100])
    # one call that swaps the whole list of named steps, replaces a component of the NEW list by
    # name and sets a nested parameter of another new component (documented order: all steps,
    # step replacement, step parameters)
    est = make()
    for attr, cur in sorted(est.get_params(deep=False).items()):
        if not (isinstance(cur, list) and len(cur) >= 2 and
                all(isinstance(x, tuple) and len(x) == 2 for x in cur)):
            continue
        from sklearn.base import clone

        newlist = [("n%d" % i, clone(e) if isinstance(e, BaseEstimator) else e)
                   for i, (_, e) in enumerate(cur)]
        repl = clone(newlist[1][1]) if isinstance(newlist[1][1], BaseEstimator) else newlist[1][1]
        kw = {attr: newlist, "n1": repl}
        leaf = None
        if isinstance(newlist[0][1], BaseEstimator):
            for pn, pv in sorted(newlist[0][1].get_params(deep=False).items()):
                if isinstance(pv, (int, np.integer)) and not isinstance(pv, bool):
                    leaf = (pn, int(pv) + 1)
                    kw["n0__" + pn] = leaf[1]
                    break
        est3 = make()
        s3 = call(lambda: est3.set_params(**kw))
        res.transitions += 1
        if not s3.ok:
            res.violate(name + ":combined:raises", "set_params(steps=..., name=..., name__p=...) "
                        "raised", observed=s3.brief())
            continue
        res.nt((name, "combined", attr))
        deep3 = est3.get_params(deep=True)
        steps3 = dict(est3.get_params(deep=False)[attr])
        if deep3.get("n1") is not repl or steps3.get("n1") is not repl:
            res.violate(name + ":combined:replace", "a component of the newly set list was not "
                        "replaced by name in the same set_params call",
                        expected=repr(repl)[:80], observed=repr(steps3.get("n1"))[:80])
        if leaf is not None and (deep3.get("n0__" + leaf[0]) != leaf[1] or
                                 steps3["n0"].get_params(deep=False)[leaf[0]] != leaf[1]):
            res.violate(name + ":combined:nested", "nested parameter of a component of the newly "
                        "set list was not written", expected=leaf,
                        observed=deep3.get("n0__" + leaf[0]))
        stray = [k for k in ("n0", "n1") if k in vars(est3)]
        if stray:
            res.violate(name + ":combined:stray", "step name stored as a stray attribute",
                        observed=stray)
    # one call that replaces a component by name AND sets a nested parameter of that same name
    # (what a parameter grid over a multiplexer / pipeline does)
    est = make()
    for key, cur in sorted(est.get_params(deep=True).items()):
        if "__" in key or not isinstance(cur, BaseEstimator) or key not in est.get_params(deep=False) \
                and not any(isinstance(v, list) and any(isinstance(x, tuple) and x[0] == key for x in v)
                            for v in est.get_params(deep=False).values()):
            continue
        repl = NaiveForecaster(strategy="last", sp=1)
        est4 = make()
        s4 = call(lambda: est4.set_params(**{key: repl, key + "__sp": 4}))
        res.transitions += 1
        if not s4.ok:
            # only a violation if the two steps done one after the other work
            est5 = make()
            two = call(lambda: est5.set_params(**{key: NaiveForecaster()}).set_params(
                **{key + "__sp": 4}))
            if two.ok:
                res.violate(name + ":replace+nested:raises", "set_params(name=new, name__p=v) raises "
                            "although the two steps work one after the other", observed=s4.brief())
            continue
        res.nt((name, "replace+nested", key))
        got = est4.get_params(deep=True)
        if got.get(key) is not repl or repl.sp != 4 or got.get(key + "__sp") != 4:
            res.violate(name + ":replace+nested", "nested parameter was not set on the component "
                        "that was put in place by the same set_params call",
                        expected=dict(component="the new one", sp=4),
                        observed=dict(same_object=got.get(key) is repl, new_sp=repl.sp,
                                      reported=got.get(key + "__sp")))
    # replace whole components by name
    est = make()
    for key, cur in sorted(est.get_params(deep=True).items()):
        if "__" in key or not isinstance(cur, BaseEstimator):
            continue
        top = est.get_params(deep=False)
        if key in top:
            pass
        est2 = make()
        repl = NaiveForecaster(strategy="mean", window_length=3)
        s = call(lambda: est2.set_params(**{key: repl}))
        res.transitions += 1
        if not s.ok:
            res.violate(name + ":replace:" + key, "replacing a component by name raised",
                        observed=s.brief())
            continue
        res.nt((name, "replace", key))
        if est2.get_params(deep=True).get(key) is not repl:
            res.violate(name + ":replace:readback:" + key, "replaced component not read back",
                        observed=repr(est2.get_params(deep=True).get(key))[:100])
    # replace every PAIR of named components in ONE set_params call
    comps = [k_ for k_, v_ in sorted(make().get_params(deep=True).items())
             if "__" not in k_ and isinstance(v_, BaseEstimator)
             and k_ not in make().get_params(deep=False)]
    for ka, kb in itertools.combinations(comps, 2):
        est2 = make()
        ra = NaiveForecaster(strategy="mean", window_length=3)
        rb = NaiveForecaster(strategy="drift")
        s = call(lambda: est2.set_params(**{ka: ra, kb: rb}))
        res.transitions += 1
        if not s.ok:
            res.violate(name + ":replace2:" + ka + "+" + kb, "replacing two components in one "
                        "set_params call raised", observed=s.brief())
            continue
        res.nt((name, "replace2", ka, kb))
        got = est2.get_params(deep=True)
        if got.get(ka) is not ra or got.get(kb) is not rb:
            res.violate(name + ":replace2:readback", "two components replaced by name in one "
                        "set_params call are not both read back",
                        expected=[ka, kb], observed=[repr(got.get(ka))[:60], repr(got.get(kb))[:60]])
    return res
