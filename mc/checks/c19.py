"""C19 - benchmark orchestration: exactly-once, resumable, stores what was predicted.

Engines E2 + E3: explicit-state breadth-first search over RUN HISTORIES of the real
``Orchestrator`` (``HDDResults`` on a scratch directory / ``RAMResults``), every run being
``run(options, crash)`` with a new Orchestrator + new results object on the same path (process
restart) and ``crash`` = the k-th fit / k-th predict of a harness-side counting estimator
raising ``Boom``.  The state is the content of the results directory (for RAM: the results
object); it is restored from a byte snapshot before every transition, so every transition is
executed on the implementation.

Oracles (all independent of sktime/benchmarking):
* folds: plain-Python k-fold / sklearn ``train_test_split`` / file sizes of the pre-split files;
* records: an independent instance of the estimator fitted by the harness on the fold's
  training rows, predicting every row of the dataset;
* store model: a set of artefacts per (strategy, dataset, fold) + the expected number of
  fit/predict calls derived from the statement (nothing missing and no overwrite -> 0 calls,
  something missing -> 1 fit + one predict per missing part, overwrite -> everything again);
* files are read with the ``csv`` module, never with the code under test.
"""
import copy
import csv
import hashlib
import io
import itertools
import logging
import os
import shutil
import tempfile

import numpy as np
import pandas as pd

from ..core import Result, call

ID = "C19"
LEVEL = "model_checking"
ANCHORS = [
    "sktime/benchmarking/orchestration.py",
    "sktime/benchmarking/results.py",
    "sktime/benchmarking/base.py",
    "sktime/benchmarking/strategies.py",
    "sktime/benchmarking/tasks.py",
    "sktime/benchmarking/data.py",
    "sktime/benchmarking/metrics.py",
    "sktime/series_as_features/model_selection/_split.py",
]
RULE = (
    "case = configuration (results kind HDD|RAM x task TSC|TSR x 1-2 datasets x 1-2 strategies "
    "x cv in {KFold(2), KFold(3), SingleSplit(random_state fixed), PresplitFilesCV[+KFold(2)]}) "
    "x class of the first run's (predict_on_train, save_fitted_strategies) (only to shard the "
    "search over workers). Inside a case: breadth-first search over run histories from the empty "
    "store; a run = one of the 12 valid assignments of (overwrite_predictions, predict_on_train, "
    "save_fitted_strategies, overwrite_fitted_strategies) x crash in {none} + {k-th fit raises} "
    "+ {k-th predict raises} for EVERY k up to the number of calls of the fault-free run from "
    "that state; history length <= L, at most B crashing runs (deviation bound), a crashing run "
    "is only explored when one more run may follow (the last run of a maximal history is "
    "fault-free); (L, B) per configuration size F = datasets*strategies*folds is listed in "
    "coverage.bounds (two pre-split UEA datasets: B <= 1). States are merged by canonical form = sorted (relative path, digest of the "
    "record without the four timing columns | fitted-parameter digest of a saved strategy) + "
    "sorted registry of results.pickle; a merged state is re-expanded only with a smaller crash "
    "count, executed transitions are cached per (state, options, crash). Nothing is sampled. "
    "Cases with reuse=true (F <= 2 quick / 4 thorough): every two-run history (options x every "
    "crash point) -> (options) executed with ONE Orchestrator object for both runs and with a new "
    "object per run; calls per run and final store must coincide. "
    "non-trivial = executed transition; distinct by (configuration, state, options, crash). "
    "VERIF_SEED only rotates the tag family: value offset, label alphabet, DataFrame index kind "
    "of the RAM panels."
)
ASSUMPTIONS = [
    "a 'fresh results object' for on-disk results is joblib.load(<path>/results.pickle) (the "
    "master file written by HDDResults.save()); HDDResults(path) itself never reads the disk",
    "instance index = positional index handed out by the cv splitter (what the orchestrator "
    "stores); the order of rows inside a record is not judged, row alignment is",
    "label/number dtype after the CSV round trip is not judged ('1' read back as 1): values are "
    "compared numerically when both sides parse as numbers, else by their text",
    "what a CRASHED run leaves behind is only judged for: nothing completed is modified or "
    "recomputed, no unrequested artefact appears, every record present is correct; the registry "
    "is judged only after a run that returned normally",
    "overwrite_fitted_strategies=True with overwrite_predictions=False: every fold is refitted and "
    "its saved strategy rewritten; existing prediction records must stay untouched (prediction "
    "overwriting is disabled)",
    "a fold with at least one requested artefact missing needs exactly one fit (predicting from "
    "saved fitted strategies is not implemented in this version: Orchestrator.predict raises)",
    "RAMResults: no persistence, check_*_exist is documented as always False, "
    "save_fitted_strategies=True raises NotImplementedError (accepted outcome); call counts are "
    "not judged for RAM, records and load_predictions are",
    "sktime/benchmarking/evaluation.py (matplotlib style) is not importable here and not needed; "
    "metrics.py is anchored but not executed by a benchmark run",
    "the 2-dataset pre-split configuration uses UnitTest + GunPoint (smallest bundled UEA "
    "problems); SingleSplit is used with a fixed random_state (with random_state=None the folds "
    "differ between runs and resumption is undefined)",
    "timing columns fit_/predict_estimator_*_time are excluded from record equality",
]

OPT_NAMES = ("overwrite_predictions", "predict_on_train", "save_fitted_strategies",
             "overwrite_fitted_strategies")
DEFAULT = (0, 0, 1, 0)
TIMING = ("fit_estimator_start_time", "fit_estimator_end_time",
          "predict_estimator_start_time", "predict_estimator_end_time")


def _valid_opts():
    out = [o for o in itertools.product((0, 1), repeat=4) if not (o[3] and not o[2])]
    out.sort(key=lambda o: (o != DEFAULT, o[0] + o[3], o[1], 1 - o[2], o))
    return out


OPTS = _valid_opts()  # 12 valid assignments, default first
FIRST_CLASSES = [(0, 1), (0, 0), (1, 1), (1, 0)]  # (predict_on_train, save_fitted)

# (L, B) by F = number of (strategy, dataset, fold) units
BOUNDS = {
    "quick": {"hdd": [(2, 3, 2), (4, 3, 2), (6, 3, 1), (99, 2, 1)],
              "ram": [(4, 2, 1), (99, 2, 0)]},
    "thorough": {"hdd": [(2, 5, 3), (4, 5, 2), (6, 4, 2), (99, 4, 1)],
                 "ram": [(4, 3, 2), (99, 3, 1)]},
}
_TIER = ["quick"]


def _bounds(tier, kind, F):
    for fmax, L, B in BOUNDS[tier][kind]:
        if F <= fmax:
            return L, B
    raise ValueError(F)


N_FOLDS = {"kfold2": 2, "kfold3": 3, "single": 1, "presplit": 1, "presplit+kfold2": 3}


def _configs(tier):
    hdd = [
        # task, datasets, strategies, cv
        ("tsc", 1, 1, "single"), ("tsc", 1, 1, "kfold2"), ("tsc", 1, 2, "single"),
        ("tsc", 2, 1, "single"), ("tsc", 1, 1, "kfold3"), ("tsc", 1, 2, "kfold2"),
        ("tsc", 2, 1, "kfold2"), ("tsc", 2, 2, "single"), ("tsr", 1, 1, "kfold2"),
        ("tsr", 1, 2, "single"), ("tsc", 1, 1, "presplit"), ("tsc", 1, 2, "presplit"),
        ("tsc", 2, 1, "presplit"), ("tsc", 1, 2, "kfold3"), ("tsc", 2, 2, "kfold2"),
    ]
    ram = [("tsc", 1, 1, "kfold2"), ("tsc", 1, 2, "single"), ("tsc", 2, 1, "kfold2"),
           ("tsr", 1, 2, "kfold2"), ("tsc", 1, 1, "presplit")]
    if tier == "thorough":
        hdd += [("tsc", 1, 1, "presplit+kfold2"), ("tsr", 2, 2, "single"),
                ("tsr", 2, 1, "kfold3"), ("tsc", 2, 2, "kfold3")]
        ram += [("tsc", 2, 2, "kfold2"), ("tsc", 1, 2, "kfold3")]
    return hdd, ram


def gen_cases(tier, seed):
    hdd, ram = _configs(tier)
    fam = int(seed) % 3
    big = []
    for kind, confs in (("hdd", hdd), ("ram", ram)):
        for j, (task, nd, ns, cv) in enumerate(confs):
            F = nd * ns * N_FOLDS[cv]
            L, B = _bounds(tier, kind, F)
            if cv.startswith("presplit") and nd == 2:
                B = min(B, 1)  # every run parses four .ts files
            base = dict(kind=kind, task=task, nd=nd, ns=ns, cv=cv, fam=fam, L=L, B=B)
            if F == 1 or kind == "ram":
                yield dict(base, first=None)
            else:
                # the four shards of one configuration differ in cost; rotate their order so
                # that equally expensive shards do not land on the same worker (index mod 16)
                for i in range(4):
                    big.append((F, dict(base, first=(i + j) % 4)))
    # simplest first
    for _, c in sorted(big, key=lambda fc: fc[0]):
        yield c
    # the task names its feature columns in another order than the dataset stores them
    for kind in ("hdd", "ram"):
        for cv in ("kfold2", "single"):
            L, B = _bounds(tier, kind, 2 * N_FOLDS[cv])
            yield dict(kind=kind, task="tsc", nd=2, ns=1, cv=cv, fam=fam, L=min(L, 2), B=min(B, 1),
                       first=None, feat="rev")
    # ONE Orchestrator object used for all runs of a history vs a new one per run
    for kind, confs in (("hdd", hdd), ("ram", ram)):
        for task, nd, ns, cv in confs:
            F = nd * ns * N_FOLDS[cv]
            if F <= (2 if tier == "quick" else 4) and not cv.startswith("presplit"):
                yield dict(kind=kind, task=task, nd=nd, ns=ns, cv=cv, fam=fam, L=2, B=1,
                           first=None, reuse=True)


def prepare(tier, seed):
    _TIER[0] = tier
    _doubles()


def extra_coverage():
    return dict(
        bounds={k: [dict(F_max=f, max_history=L, max_crashing_runs=B) for f, L, B in v]
                for k, v in BOUNDS[_TIER[0]].items()},
        max_depth=max(L for v in BOUNDS[_TIER[0]].values() for _, L, _ in v),
        options_per_run=len(OPTS),
        history_samples=[
            dict(config="hdd tsc 1 dataset x 2 strategies x single",
                 history=[[list(DEFAULT), ["fit", 2]], [list(DEFAULT), None]]),
            dict(config="hdd tsc 1x1 kfold2",
                 history=[[[0, 1, 1, 0], ["predict", 3]], [[0, 1, 1, 0], None],
                          [[1, 1, 1, 1], None]]),
        ],
    )


# ======================================================================= doubles
class Boom(Exception):
    """the harness-injected failure of the k-th fit / predict"""


class _G:  # harness-global call bookkeeping (one worker runs one case at a time)
    log = []  # (kind, tag, serial, rowkey)
    nfit = 0
    npred = 0
    crash = None  # ("fit", k) | ("predict", k)
    muted = False
    serial = 0


def _reset_calls(crash=None):
    _G.log = []
    _G.nfit = 0
    _G.npred = 0
    _G.crash = tuple(crash) if crash else None


def _flat(X):
    return np.hstack([np.vstack([np.asarray(c, dtype=float) for c in X[col]])
                      for col in X.columns])


def _rowkeys(X):
    cols = [X[c].tolist() for c in X.columns]
    out = []
    for i in range(len(X)):
        out.append(hash(b"".join(np.asarray(col[i], dtype=float).tobytes() for col in cols)))
    return tuple(sorted(out))


_DBL = {}


def _doubles():
    """CountingClassifier / CountingRegressor: deterministic, sktime-compatible, counted, can
    fail at the k-th call, and *stateful across fits of one object* (class sums accumulate, as in
    an estimator with warm start) so that re-using a fitted object instead of a fresh clone is
    visible in predictions and fitted parameters."""
    if _DBL:
        return _DBL
    from sktime.classification.base import BaseClassifier
    from sktime.regression.base import BaseRegressor

    def _enter_fit(self, X):
        if _G.muted:
            return
        _G.nfit += 1
        _G.serial += 1
        self._serial = _G.serial
        _G.log.append(("fit", self.tag, self._serial, _rowkeys(X)))
        if _G.crash == ("fit", _G.nfit):
            raise Boom("fit #%d" % _G.nfit)

    def _enter_predict(self, X):
        if _G.muted:
            return
        _G.npred += 1
        _G.log.append(("predict", self.tag, getattr(self, "_serial", None), _rowkeys(X)))
        if _G.crash == ("predict", _G.npred):
            raise Boom("predict #%d" % _G.npred)

    class CountingClassifier(BaseClassifier):
        def __init__(self, tag="A", variant=0):
            self.tag = tag
            self.variant = variant
            super(CountingClassifier, self).__init__()

        def fit(self, X, y):
            _enter_fit(self, X)
            Xa = _flat(X)
            y = np.asarray(y)
            acc = getattr(self, "_acc", None) or {}
            for row, lab in zip(Xa, y):
                s, c = acc.get(lab, (0.0, 0))
                acc[lab] = (s + row, c + 1)
            self._acc = acc
            self.classes_ = np.array(sorted(acc))
            self.means_ = np.array([acc[c][0] / acc[c][1] for c in self.classes_])
            self._is_fitted = True
            return self

        def predict(self, X):
            _enter_predict(self, X)
            Xa = _flat(X)
            d = ((Xa[:, None, :] - self.means_[None, :, :]) ** 2).sum(axis=2)
            j = np.argmin(d, axis=1) if self.variant == 0 else np.argmax(d, axis=1)
            return self.classes_[j]

    class CountingRegressor(BaseRegressor):
        def __init__(self, tag="A", variant=0):
            self.tag = tag
            self.variant = variant
            super(CountingRegressor, self).__init__()

        def fit(self, X, y):
            _enter_fit(self, X)
            Xa = _flat(X)
            y = np.asarray(y, dtype=float)
            sy, sx, n = getattr(self, "_acc", None) or (0.0, 0.0, 0)
            self._acc = (sy + float(y.sum()), sx + float(Xa.sum(axis=1).sum()), n + len(y))
            self.means_ = np.array([self._acc[0] / self._acc[2], self._acc[1] / self._acc[2]])
            self._is_fitted = True
            return self

        def predict(self, X):
            _enter_predict(self, X)
            Xa = _flat(X)
            sign = 1.0 if self.variant == 0 else -1.0
            return self.means_[0] + sign * 0.001 * (Xa.sum(axis=1) - self.means_[1])

    for cls in (CountingClassifier, CountingRegressor):
        cls.__module__ = __name__
        cls.__qualname__ = cls.__name__
        globals()[cls.__name__] = cls  # picklable by reference
    _DBL.update(tsc=CountingClassifier, tsr=CountingRegressor)
    return _DBL


# ======================================================================= data, folds, oracle
LABELS = [("a", "b"), ("u", "v"), (3, 7)]
PATTERN = [0, 1, 0, 0, 1, 1, 0, 1]
DS_NAMES = ["d1", "d2"]
UEA_NAMES = ["UnitTest", "GunPoint"]


def _panel(di, fam, task):
    """tagged panel: v[i, c, t] = off + 1000*(di+1) + 100*i + 10*c + t + 0.5"""
    n, T = 6 + di, 3
    off = (0.0, 7.0, 13.0)[fam]
    ncol = 1 + di
    cols = {}
    for c in range(ncol):
        cols["dim_%d" % c] = [pd.Series([off + 1000.0 * (di + 1) + 100 * i + 10 * c + t + 0.5
                                         for t in range(T)]) for i in range(n)]
    if task == "tsc":
        lab = LABELS[fam]
        target = [lab[PATTERN[(i + di) % len(PATTERN)]] for i in range(n)]
    else:
        target = [10.0 * di + 2.5 * i + (i % 3) + 0.25 for i in range(n)]
    if di == 1:  # target first: feature selection must drop it by name, not by position
        df = pd.DataFrame(dict([("target", target)] + list(cols.items())))
    else:
        df = pd.DataFrame(dict(list(cols.items()) + [("target", target)]))
    if fam == 1:
        df.index = pd.Index([10 + 3 * i for i in range(n)])
    elif fam == 2:
        df.index = pd.Index(["r%d" % i for i in range(n)])
    return df


def _uea_paths(name):
    from .. import compat

    root = os.path.join(compat.REPO, "sktime", "datasets", "data")
    return root, os.path.join(root, name, name + "_TRAIN.ts"), os.path.join(
        root, name, name + "_TEST.ts")


def _count_ts_cases(path):
    n, data = 0, False
    for line in open(path):
        s = line.strip()
        if not s or s.startswith("#") or s.startswith("%"):
            continue
        if data:
            n += 1
        elif s.lower().startswith("@data"):
            data = True
    return n


_UEA_CACHE = {}


def _uea_frame(name):
    if name not in _UEA_CACHE:
        from sktime.utils.data_io import load_from_tsfile_to_dataframe

        _, ptr, pte = _uea_paths(name)
        Xtr, ytr = load_from_tsfile_to_dataframe(ptr, return_separate_X_and_y=True)
        Xte, yte = load_from_tsfile_to_dataframe(pte, return_separate_X_and_y=True)
        df = pd.concat([Xtr, Xte], axis=0, ignore_index=True)
        df["target"] = list(ytr) + list(yte)
        ntr, nte = _count_ts_cases(ptr), _count_ts_cases(pte)
        assert (ntr, nte) == (len(Xtr), len(Xte)), "harness: .ts case count"
        _UEA_CACHE[name] = (df, ntr)
    return _UEA_CACHE[name]


def _kfold_ref(n, k):
    sizes = [n // k + (1 if i < n % k else 0) for i in range(k)]
    folds, start = [], 0
    for s in sizes:
        test = list(range(start, start + s))
        train = [i for i in range(n) if i < start or i >= start + s]
        folds.append((train, test))
        start += s
    return folds


SS_STATE = 7


def _folds_ref(cv, n, ntr=None):
    if cv == "kfold2":
        return _kfold_ref(n, 2)
    if cv == "kfold3":
        return _kfold_ref(n, 3)
    if cv == "single":
        from sklearn.model_selection import train_test_split

        tr, te = train_test_split(np.arange(n), test_size=0.25, random_state=SS_STATE)
        return [([int(i) for i in tr], [int(i) for i in te])]
    pre = [(list(range(ntr)), list(range(ntr, n)))]
    if cv == "presplit+kfold2":
        pre += _kfold_ref(n, 2)
    return pre


def _same(a, b):
    """value equality across the CSV round trip (see ASSUMPTIONS)"""
    try:
        fa, fb = float(a), float(b)
    except (TypeError, ValueError):
        return str(a) == str(b)
    return fa == fb or abs(fa - fb) <= 1e-9 * max(1.0, abs(fa), abs(fb))


def _bd(b):
    return hashlib.blake2b(b, digest_size=10).hexdigest()


class Ctx:
    """everything derived from the case that does not change over the search"""

    def __init__(self, case):
        self.case = {k: case[k] for k in ("kind", "task", "nd", "ns", "cv", "fam", "L", "B",
                                          "first")}
        if case.get("reuse"):
            self.case["reuse"] = True
        # feat="rev": the task lists the feature columns in the reverse of the dataset's order
        self.featrev = case.get("feat") == "rev"
        if self.featrev:
            self.case["feat"] = "rev"
        self.kind, self.task, self.cv, self.fam = case["kind"], case["task"], case["cv"], \
            case["fam"]
        self.uea = self.cv.startswith("presplit")
        self.dnames = (UEA_NAMES if self.uea else DS_NAMES)[:case["nd"]]
        self.snames = ["A", "B"][:case["ns"]]
        self.variant = {"A": 0, "B": 1}
        self.est = _doubles()[self.task]
        self.data, self.folds = {}, {}
        for di, d in enumerate(self.dnames):
            if self.uea:
                df, ntr = _uea_frame(d)
                self.data[d] = df
                self.folds[d] = _folds_ref(self.cv, len(df), ntr)
            else:
                self.data[d] = _panel(di, self.fam, self.task)
                self.folds[d] = _folds_ref(self.cv, len(self.data[d]))
        self.nfolds = N_FOLDS[self.cv]
        self.units = [(s, d, f) for d in self.dnames for s in self.snames
                      for f in range(self.nfolds)]
        # independent fit per unit, predictions for every row of the dataset
        self.oracle, self.by_train, self.rows = {}, {}, {}
        _G.muted = True
        try:
            for (s, d, f) in self.units:
                df = self.data[d]
                feats = [c for c in df.columns if c != "target"]
                if self.featrev:
                    feats = feats[::-1]
                tr, te = self.folds[d][f]
                est = self.est(tag=s, variant=self.variant[s])
                est.fit(df[feats].iloc[tr], df["target"].iloc[tr])
                pred = list(est.predict(df[feats]))
                self.oracle[(s, d, f)] = dict(pred=pred, means=np.array(est.means_))
                ktr, kte = _rowkeys(df[feats].iloc[tr]), _rowkeys(df[feats].iloc[te])
                self.rows[(s, d, f)] = dict(train=ktr, test=kte)
                self.by_train.setdefault((s, ktr), []).append((s, d, f))
        finally:
            _G.muted = False
        self.tmp = None
        self.vcache = {}  # verified file digests
        self.ccache = {}  # bytes digest -> canonical digest
        self.ref = {}  # (pot, save) -> canonical store of the uninterrupted run
        self.seen_keys = set()

    # ---- objects of one run (a new process would build all of them anew)
    def make(self):
        from sklearn.model_selection import KFold
        from sktime.benchmarking.data import RAMDataset, UEADataset
        from sktime.benchmarking.strategies import TSCStrategy, TSRStrategy
        from sktime.benchmarking.tasks import TSCTask, TSRTask
        from sktime.series_as_features.model_selection import PresplitFilesCV, SingleSplit

        if self.uea:
            root = _uea_paths(self.dnames[0])[0]
            datasets = [UEADataset(path=root, name=d) for d in self.dnames]
        else:
            datasets = [RAMDataset(_panel(di, self.fam, self.task), d)
                        for di, d in enumerate(self.dnames)]
        T, S = (TSCTask, TSCStrategy) if self.task == "tsc" else (TSRTask, TSRStrategy)
        tasks = [T(target="target") for _ in self.dnames]
        if self.featrev and not self.uea:
            tasks = [T(target="target", features=["dim_%d" % c for c in reversed(range(1 + di))])
                     for di, _ in enumerate(self.dnames)]
        strategies = [S(self.est(tag=s, variant=self.variant[s]), name=s) for s in self.snames]
        cv = {"kfold2": lambda: KFold(2), "kfold3": lambda: KFold(3),
              "single": lambda: SingleSplit(random_state=SS_STATE),
              "presplit": lambda: PresplitFilesCV(),
              "presplit+kfold2": lambda: PresplitFilesCV(cv=KFold(2))}[self.cv]()
        return tasks, datasets, strategies, cv

    def requested(self, O):
        return {"test"} | ({"train"} if O[1] else set()) | ({"fitted"} if O[2] else set())


def _relpath(s, d, f, art):
    return os.path.join(s, d, "%s_%s_%d.%s" % (s, "train" if art != "test" else "test", f,
                                                "pickle" if art == "fitted" else "csv"))


# ======================================================================= HDD store access
def _snapshot(root):
    snap = {}
    for dp, _, fns in os.walk(root):
        for fn in fns:
            p = os.path.join(dp, fn)
            with open(p, "rb") as fh:
                snap[os.path.relpath(p, root)] = fh.read()
    return snap


def _restore(root, snap):
    for e in os.listdir(root):
        p = os.path.join(root, e)
        if os.path.isdir(p):
            shutil.rmtree(p)
        else:
            os.remove(p)
    for rp, b in snap.items():
        p = os.path.join(root, rp)
        os.makedirs(os.path.dirname(p), exist_ok=True)
        with open(p, "wb") as fh:
            fh.write(b)


def _parse_csv(b):
    rows = list(csv.reader(io.StringIO(b.decode())))
    head, body = rows[0], rows[1:]
    cols = {h: [r[i] for r in body] for i, h in enumerate(head)}
    return head, cols


def _registry(b, root=None):
    """names in a results.pickle, read as a fresh results object would"""
    from joblib import load

    r = load(io.BytesIO(b))
    return tuple(sorted(r.strategy_names)), tuple(sorted(r.dataset_names))


_PCACHE = {}


def _fitted_params(b, root=None):
    from joblib import load

    k = _bd(b)
    if k not in _PCACHE:
        if len(_PCACHE) > 20000:
            _PCACHE.clear()
        st = load(io.BytesIO(b))
        _PCACHE[k] = (st.name, np.array(st.estimator.means_))
    return _PCACHE[k]


def _canon(ctx, snap):
    """canonical form of an on-disk store"""
    items = []
    for rp in sorted(snap):
        bd = _bd(snap[rp])
        if (rp, bd) not in ctx.ccache:
            if rp == "results.pickle":
                c = repr(call(_registry, snap[rp], ctx.tmp).value)
            elif rp.endswith(".csv"):
                head, cols = _parse_csv(snap[rp])
                c = _bd(repr([(h, cols[h]) for h in head if h not in TIMING]).encode())
            elif rp.endswith(".pickle"):
                o = call(_fitted_params, snap[rp], ctx.tmp)
                c = _bd(repr((o.value[0], o.value[1].round(9).tolist())).encode()) if o.ok \
                    else "unloadable"
            else:
                c = bd
            ctx.ccache[(rp, bd)] = c
        items.append((rp, ctx.ccache[(rp, bd)]))
    return tuple(items)


def _present(ctx, snap):
    have = {}
    for u in ctx.units:
        have[u] = {a for a in ("test", "train", "fitted") if _relpath(*u, a) in snap}
    return have


# ======================================================================= judging
class Judge:
    """collects violations of one case; first (BFS-minimal) history per key only"""

    def __init__(self, ctx, res):
        self.ctx, self.res = ctx, res
        self.keys = set()

    def v(self, key, what, hist, expected=None, observed=None):
        if key in self.keys:
            return
        self.keys.add(key)
        case = dict(self.ctx.case, history=[[list(o), (list(c) if c else None)]
                                            for o, c in hist])
        self.res.violate(key, what, expected=expected, observed=observed, case=case)


def _attribute(ctx, J, hist, log):
    """calls per unit from the estimator's own log: a fit belongs to the unit whose training
    rows it was given; a predict belongs to the unit of the last fit of the same object"""
    calls = {u: dict(fit=0, train=0, test=0) for u in ctx.units}
    unit_of_serial = {}
    for kind, tag, serial, rows in log:
        if kind == "fit":
            cands = ctx.by_train.get((tag, rows), [])
            if not cands:
                J.v("calls:unknown-fit", "an estimator was fitted on rows that are not the "
                    "training rows of any fold of its strategy", hist, observed=(tag, len(rows)))
                continue
            # identical training sets of different folds cannot occur for the cvs used
            u = cands[0]
            unit_of_serial[serial] = u
            calls[u]["fit"] += 1
        else:
            u = unit_of_serial.get(serial)
            if u is None:
                J.v("calls:unknown-predict", "predict on an estimator object that was not "
                    "fitted in this run", hist, observed=(tag, len(rows)))
                continue
            part = [p for p in ("test", "train") if ctx.rows[u][p] == rows]
            if not part:
                J.v("calls:unknown-predict", "predict on rows that are neither the test nor "
                    "the training rows of the fold the object was fitted for", hist,
                    observed=(u, len(rows)))
                continue
            calls[u][part[0]] += 1
    return calls


def _expected_calls(ctx, O, have_u):
    owp, pot, save, owf = O
    req = ctx.requested(O)
    parts = [p for p in ("train", "test") if p in req]
    if owp:
        return dict(fit=1, **{p: 1 for p in parts}), "overwrite"
    if owf:
        return dict(fit=1, **{p: (0 if p in have_u else 1) for p in parts}), "overwrite-fitted"
    missing = req - have_u
    if not missing:
        return dict(fit=0), "complete"
    return dict(fit=1, **{p: (1 if p in missing else 0) for p in parts}), "missing"


def _check_record(ctx, J, hist, u, part, b):
    """one stored prediction record against the independent fit"""
    s, d, f = u
    bd = ("rec", u, part, _bd(b))
    if bd in ctx.vcache:
        return
    ctx.vcache[bd] = True
    try:
        head, cols = _parse_csv(b)
        idx = [int(float(i)) for i in cols["index"]]
        yt, yp = cols["y_true"], cols["y_pred"]
    except Exception as e:  # noqa
        J.v("record:malformed", "stored record cannot be parsed", hist,
            observed="%s: %r" % (_relpath(s, d, f, part), e))
        return
    exp_idx = ctx.folds[d][f][0 if part == "train" else 1]
    if sorted(idx) != sorted(exp_idx):
        J.v("record:index", "instance index of a stored record is not the fold's %s part" % part,
            hist, expected=dict(unit=u, part=part, index=sorted(exp_idx)), observed=idx)
        return
    target = list(ctx.data[d]["target"])
    bad_t = [(i, t, target[i]) for i, t in zip(idx, yt) if not _same(t, target[i])]
    if bad_t:
        J.v("record:y_true", "y_true of a stored record differs from the dataset's target at "
            "the recorded instance", hist, expected=dict(unit=u, part=part,
            rows=[(i, e) for i, _, e in bad_t[:5]]), observed=[(i, t) for i, t, _ in bad_t[:5]])
    opred = ctx.oracle[u]["pred"]
    bad_p = [(i, p, opred[i]) for i, p in zip(idx, yp) if not _same(p, opred[i])]
    if bad_p:
        J.v("record:y_pred", "y_pred of a stored record differs from an independent clone "
            "fitted on the fold's training instances", hist, expected=dict(
                unit=u, part=part, rows=[(i, e) for i, _, e in bad_p[:5]]),
            observed=[(i, p) for i, p, _ in bad_p[:5]])


def _check_fitted(ctx, J, hist, u, b):
    bd = ("fit", u, _bd(b))
    if bd in ctx.vcache:
        return
    ctx.vcache[bd] = True
    o = call(_fitted_params, b, ctx.tmp)
    if not o.ok:
        J.v("fitted:unloadable", "saved fitted strategy cannot be loaded", hist,
            observed=o.brief())
        return
    name, means = o.value
    exp = ctx.oracle[u]["means"]
    if name != u[0] or means.shape != exp.shape or not np.allclose(means, exp, rtol=1e-12,
                                                                   atol=0):
        J.v("fitted:mismatch", "saved fitted strategy does not hold the parameters of a fresh "
            "clone fitted on the fold's training instances", hist,
            expected=dict(unit=u, name=u[0], means=exp.tolist()),
            observed=dict(name=name, means=means.tolist()))


def _wrap_equal(w, cols):
    try:
        return (len(w.index) == len(cols["index"])
                and all(_same(a, b) for a, b in zip(w.index, cols["index"]))
                and all(_same(a, b) for a, b in zip(w.y_true, cols["y_true"]))
                and all(_same(a, b) for a, b in zip(w.y_pred, cols["y_pred"])))
    except Exception:  # noqa
        return False


def _check_load(ctx, J, hist, sit, results, snap, who):
    """load_predictions of `results` (fresh-from-disk or live) against the files in `snap`"""
    stored_s = sorted({s for (s, d, f) in ctx.units
                       if any(_relpath(s, d, f, a) in snap for a in ("test", "train", "fitted"))})
    stored_d = sorted({d for (s, d, f) in ctx.units
                       if any(_relpath(s, d, f, a) in snap for a in ("test", "train", "fitted"))})
    reg_s, reg_d = sorted(results.strategy_names), sorted(results.dataset_names)
    lost = False
    for axis, reg, stored in (("strategy", reg_s, stored_s), ("dataset", reg_d, stored_d)):
        if set(stored) - set(reg):
            lost = True
            reach = call(lambda: [(w.strategy_name, w.dataset_name)
                                  for w in results.load_predictions(0, "test")])
            J.v("%s:registry-lost:%s" % (sit, axis),
                "after a run that returned normally the %s results object does not list every "
                "%s that has records in the store; their records are unreachable through "
                "load_predictions" % (who, axis), hist,
                expected=dict(strategies=stored_s, datasets=stored_d),
                observed=dict(strategies=reg_s, datasets=reg_d,
                              load_predictions_fold0_test=reach.value if reach.ok
                              else reach.brief()))
        if set(reg) - set(stored):
            J.v("registry:extra:%s" % axis, "the %s results object lists a %s without any "
                "record" % (who, axis), hist, expected=stored, observed=reg)
    if lost:
        return
    for f in range(ctx.nfolds):
        for part in ("test", "train"):
            keys = [(s, d) for s in reg_s for d in reg_d]
            if not all(_relpath(s, d, f, part) in snap for s, d in keys):
                continue  # not every pair has this part stored: loading it is not requested
            o = call(lambda: list(results.load_predictions(f, part)))
            if not o.ok:
                J.v("load:raises", "%s results object: load_predictions(%d, %r) raises although "
                    "every record is stored" % (who, f, part), hist, observed=o.brief())
                continue
            got = [(w.strategy_name, w.dataset_name) for w in o.value]
            if sorted(got) != sorted(keys):
                J.v("load:count", "%s results object: load_predictions does not return exactly "
                    "one record per (strategy, dataset)" % who, hist, expected=sorted(keys),
                    observed=got)
                continue
            for w in o.value:
                _, cols = _parse_csv(snap[_relpath(w.strategy_name, w.dataset_name, f, part)])
                if not _wrap_equal(w, cols):
                    J.v("load:mismatch", "%s results object: load_predictions returns something "
                        "else than the stored record" % who, hist,
                        expected=dict(index=cols["index"], y_true=cols["y_true"],
                                      y_pred=cols["y_pred"]),
                        observed=dict(index=list(w.index), y_true=list(w.y_true),
                                      y_pred=list(w.y_pred)))
    J.res.evals += 1


def _situation(hist):
    if not hist:
        return "first"
    return "resume" if any(c for _, c in hist) else "rerun"


def _run_hdd(ctx, O, crash):
    """one process: new orchestrator + new results object on the same path"""
    from sktime.benchmarking.orchestration import Orchestrator
    from sktime.benchmarking.results import HDDResults

    tasks, datasets, strategies, cv = ctx.make()
    results = HDDResults(path=ctx.tmp)
    orch = Orchestrator(tasks, datasets, strategies, cv, results)
    _reset_calls(crash)
    out = call(orch.fit_predict, **dict(zip(OPT_NAMES, map(bool, O))))
    _G.crash = None
    return out, results, list(_G.log), (_G.nfit, _G.npred)


def _step_hdd(ctx, J, before, hist, O, crash, deep):
    """execute run(O, crash) from the store `before` (already on disk) and judge it.
    Returns (after snapshot, (nfit, npred), outcome kind)."""
    res = J.res
    sit = _situation(hist)
    h2 = hist + [(tuple(O), tuple(crash) if crash else None)]
    out, live, log, counts = _run_hdd(ctx, O, crash)
    after = _snapshot(ctx.tmp)
    res.transitions += 1
    okind = out.kind if out.ok or not out.is_a(Boom) else "Boom:" + crash[0]
    if crash is None and not out.ok:
        J.v("run:raises", "fault-free run raised", h2, observed=out.brief() + " " + (out.tb or ""))
        res.outcome("hdd:raises:" + out.kind)
        return after, counts, okind
    if crash is not None and not out.is_a(Boom):
        # the statement does not decide how a failure surfaces; record the class only
        res.outcome("hdd:crash-surfaced-as:" + out.kind)
    owp, pot, save, owf = O
    req = ctx.requested(O)
    have = _present(ctx, before)
    calls = _attribute(ctx, J, h2, log)
    # --- files: nothing unexpected, nothing unrequested, nothing completed modified
    allowed = {_relpath(*u, a) for u in ctx.units for a in ("test", "train", "fitted")}
    for rp in sorted(after):
        if rp != "results.pickle" and rp not in allowed:
            J.v("store:unexpected-file", "file that is no record of any (strategy, dataset, "
                "fold, part)", h2, expected=sorted(allowed)[:6], observed=rp)
    classes = set()
    for u in ctx.units:
        exp, cls = _expected_calls(ctx, O, have[u])
        classes.add(cls)
        got = calls[u]
        for a in ("test", "train", "fitted"):
            rp = _relpath(*u, a)
            if rp in before and rp not in after:
                J.v("%s:deleted" % sit, "a stored artefact disappeared", h2, observed=rp)
            if rp in after and rp not in before and a not in req:
                J.v("store:unrequested", "an artefact that the run's options do not request "
                    "was stored", h2, expected=sorted(req), observed=rp)
            if rp in before and rp in after and before[rp] != after[rp]:
                may = (owp and a in req) if a != "fitted" else bool(owf)
                if not may:
                    J.v("%s:%s-modified" % (sit, "fitted" if a == "fitted" else "record"),
                        "a completed %s was rewritten although overwriting it is disabled" % (
                            "saved fitted strategy" if a == "fitted" else "prediction record"),
                        h2, expected="byte-identical " + rp,
                        observed=dict(options=dict(zip(OPT_NAMES, O))))
            if rp in after:
                if a == "fitted":
                    _check_fitted(ctx, J, h2, u, after[rp])
                else:
                    _check_record(ctx, J, h2, u, a, after[rp])
        # --- calls
        if cls == "complete":
            if got["fit"]:
                J.v("%s:refit-completed" % sit, "a fold whose requested records (and fitted "
                    "strategy) all exist was fitted again with overwriting disabled", h2,
                    expected=dict(unit=u, fits=0), observed=got)
            if got["train"] or got["test"]:
                J.v("%s:repredict-completed" % sit, "a completed fold was predicted again with "
                    "overwriting disabled", h2, expected=dict(unit=u, predicts=0), observed=got)
        else:
            for k, e in exp.items():
                g = got[k]
                if crash is None and g != e or g > e:
                    if k == "fit":
                        key = "%s:fit-count" % sit if cls == "missing" else "overwrite:fit-count"
                    elif e == 0:
                        key = "%s:repredict-completed" % sit
                    elif cls == "overwrite":
                        key = "overwrite:not-recomputed" if g < e else "overwrite:predict-count"
                    else:
                        key = "%s:predict-count" % sit
                    J.v(key, "number of %s calls for a fold differs from what the statement "
                        "implies (%s)" % (k if k == "fit" else "predict[%s]" % k, cls), h2,
                        expected=dict(unit=u, have=sorted(have[u]), calls=exp), observed=got)
            for k in ("train", "test"):
                if k not in exp and got[k]:
                    J.v("store:unrequested-predict", "predict on a part the options do not "
                        "request", h2, expected=dict(unit=u, calls=exp), observed=got)
        # --- completeness after a run that returned normally
        if crash is None:
            for a in sorted(req | have[u]):
                if _relpath(*u, a) not in after:
                    J.v("%s:missing-not-produced" % sit if a in req else "%s:deleted" % sit,
                        "after a run that returned normally a requested record does not "
                        "exist: not exactly one record per (strategy, dataset, fold, part)", h2,
                        expected=_relpath(*u, a), observed=sorted(after))
            if owp:
                for a in ("train", "test"):
                    rp = _relpath(*u, a)
                    if a in req and rp in before and after.get(rp) == before[rp]:
                        J.v("overwrite:not-recomputed", "overwrite_predictions=True left an "
                            "existing record byte-identical (timing columns included)", h2,
                            observed=rp)
    res.outcome("hdd:%s:%s" % (okind, "+".join(sorted(classes))))
    # --- registry and read-back, only judged after a run that returned normally
    if crash is None:
        if "results.pickle" not in after:
            J.v("%s:no-master-file" % sit, "run returned normally without a results.pickle",
                h2, observed=sorted(after))
        elif deep or (_canon(ctx, after), sit, pot, save) not in ctx.seen_keys:
            ctx.seen_keys.add((_canon(ctx, after), sit, pot, save))
            # 1 a fresh results object read from disk, 2 the live one ("read back from memory")
            fresh = call(lambda: __import__("joblib").load(
                os.path.join(ctx.tmp, "results.pickle")))
            if not fresh.ok:
                J.v("load:master-unloadable", "results.pickle cannot be loaded", h2,
                    observed=fresh.brief())
            else:
                _check_load(ctx, J, h2, sit, fresh.value, after,
                            "fresh (joblib.load of results.pickle)")
            _check_load(ctx, J, h2, sit, live, after, "live (the run's own)")
            if "results.pickle" in before:
                b_reg = _registry(before["results.pickle"], ctx.tmp)
                a_reg = _registry(after["results.pickle"], ctx.tmp)
                if set(b_reg[0]) - set(a_reg[0]) or set(b_reg[1]) - set(a_reg[1]):
                    J.v("registry:shrunk", "names listed in the master file before the run are "
                        "gone afterwards", h2, expected=b_reg, observed=a_reg)
            # differential: equal to the uninterrupted run whenever that run defines the store
            fin = {rp for rp in after if rp != "results.pickle"}
            full = {_relpath(*u, a) for u in ctx.units for a in req}
            if fin == full and hist:
                ref = _reference(ctx, (pot, save))
                mine = _canon(ctx, after)
                if ref is not None and mine != ref:
                    rec_m = [x for x in mine if x[0] != "results.pickle"]
                    rec_r = [x for x in ref if x[0] != "results.pickle"]
                    if rec_m != rec_r:
                        J.v("%s:final-records-differ" % sit, "final records differ from those "
                            "of an uninterrupted run with the same options", h2,
                            expected=rec_r[:8], observed=rec_m[:8])
                    elif not any(k.startswith("%s:registry-lost" % sit) for k in J.keys):
                        J.v("%s:final-registry-differs" % sit, "final registry differs from "
                            "that of an uninterrupted run", h2,
                            expected=dict(ref).get("results.pickle"),
                            observed=dict(mine).get("results.pickle"))
    return after, counts, okind


def _reference(ctx, ps):
    """canonical store of ONE uninterrupted run with (predict_on_train, save_fitted) = ps
    from the empty store (computed once per case; restores nothing: callers restore)"""
    if ps not in ctx.ref:
        keep = _snapshot(ctx.tmp)
        _restore(ctx.tmp, {})
        out, _, _, _ = _run_hdd(ctx, (0, ps[0], ps[1], 0), None)
        ctx.ref[ps] = _canon(ctx, _snapshot(ctx.tmp)) if out.ok else None
        _restore(ctx.tmp, keep)
    return ctx.ref[ps]


# ======================================================================= RAM store
def _ram_canon(results):
    items = []
    for k in sorted(results.results):
        w = results.results[k]
        items.append((k, _bd(repr((list(map(str, w.index)), list(map(str, w.y_true)),
                                   list(map(str, w.y_pred)))).encode())))
    return (tuple(items), tuple(sorted(results.strategy_names)),
            tuple(sorted(results.dataset_names)))


def _step_ram(ctx, J, results, hist, O, crash):
    """run(O, crash) on the given (already copied) RAMResults object"""
    from sktime.benchmarking.orchestration import Orchestrator

    res = J.res
    h2 = hist + [(tuple(O), tuple(crash) if crash else None)]
    tasks, datasets, strategies, cv = ctx.make()
    orch = Orchestrator(tasks, datasets, strategies, cv, results)
    _reset_calls(crash)
    out = call(orch.fit_predict, **dict(zip(OPT_NAMES, map(bool, O))))
    _G.crash = None
    counts = (_G.nfit, _G.npred)
    log = list(_G.log)
    res.transitions += 1
    okind = out.kind if out.ok or not out.is_a(Boom) else "Boom:" + crash[0]
    res.outcome("ram:%s:save=%d" % (okind, O[2]))
    _attribute(ctx, J, h2, log)  # fits/predicts must be on some fold's rows
    if not out.ok:
        if crash is None and not (O[2] and out.is_a(NotImplementedError)):
            J.v("ram:run:raises", "fault-free run over RAMResults raised", h2,
                observed=out.brief())
        ok_run = False
    else:
        ok_run = True
    # every record present is correct; after a normal run exactly one per requested key
    pairs = [(s, d) for s in ctx.snames for d in ctx.dnames]
    parts_here = {}
    for f in range(ctx.nfolds):
        for part in ("test", "train"):
            want = part == "test" or O[1]
            o = call(lambda: list(results.load_predictions(f, part)))
            if not o.ok:
                if ok_run and want:
                    J.v("ram:load:raises", "load_predictions raises after a run that returned "
                        "normally and requested this part", h2, observed=o.brief())
                continue
            got = [(w.strategy_name, w.dataset_name) for w in o.value]
            parts_here[(f, part)] = got
            if ok_run and want and sorted(got) != sorted(pairs):
                J.v("ram:load:count", "not exactly one record per (strategy, dataset) for a "
                    "requested fold and part", h2, expected=sorted(pairs), observed=got)
            for w in o.value:
                u = (w.strategy_name, w.dataset_name, f)
                if u not in ctx.oracle:
                    J.v("ram:record:unknown", "record of an unknown unit", h2, observed=u)
                    continue
                idx = [int(i) for i in w.index]
                exp_idx = ctx.folds[u[1]][f][0 if part == "train" else 1]
                target = list(ctx.data[u[1]]["target"])
                opred = ctx.oracle[u]["pred"]
                if sorted(idx) != sorted(exp_idx):
                    J.v("ram:record:index", "instance index of an in-memory record is not the "
                        "fold's part", h2, expected=dict(unit=u, part=part, index=exp_idx),
                        observed=idx)
                elif not all(_same(t, target[i]) for i, t in zip(idx, w.y_true)):
                    J.v("ram:record:y_true", "y_true of an in-memory record differs from the "
                        "dataset", h2, expected=[target[i] for i in idx], observed=list(w.y_true))
                elif not all(_same(p, opred[i]) for i, p in zip(idx, w.y_pred)):
                    J.v("ram:record:y_pred", "y_pred of an in-memory record differs from an "
                        "independent clone fitted on the fold's training instances", h2,
                        expected=dict(unit=u, part=part, y_pred=[opred[i] for i in idx]),
                        observed=list(w.y_pred))
    if ok_run:
        if sorted(results.strategy_names) != sorted(ctx.snames) or \
                sorted(results.dataset_names) != sorted(ctx.dnames):
            J.v("ram:registry", "registry of the in-memory results differs from the run's "
                "strategies/datasets", h2, expected=(ctx.snames, ctx.dnames),
                observed=(results.strategy_names, results.dataset_names))
    return results, counts, okind


# ======================================================================= search
def _first_allowed(ctx, O):
    first = ctx.case.get("first")
    return first is None or (O[1], O[2]) == FIRST_CLASSES[first]


def _search(ctx, J, L, B):
    res = J.res
    hdd = ctx.kind == "hdd"
    from sktime.benchmarking.results import RAMResults

    root_store = {} if hdd else RAMResults()
    root_canon = _canon(ctx, root_store) if hdd else _ram_canon(root_store)
    nodes = {root_canon: dict(store=root_store, hist=[])}
    minc = {root_canon: 0}
    cache = {}  # (canon, O, crash) -> (succ canon, counts)
    frontier = [(root_canon, 0)]
    res.states = 1

    def execute(canon, O, crash):
        key = (canon, O, crash)
        if key in cache:
            return cache[key]
        node = nodes[canon]
        if hdd:
            _restore(ctx.tmp, node["store"])
            after, counts, _ = _step_hdd(ctx, J, node["store"], node["hist"], O, crash,
                                         deep=False)
            sc = _canon(ctx, after)
        else:
            after, counts, _ = _step_ram(ctx, J, copy.deepcopy(node["store"]), node["hist"], O,
                                         crash)
            sc = _ram_canon(after)
        res.nt((tuple(sorted(ctx.case.items(), key=str)), canon, O, crash))
        if sc not in nodes:
            nodes[sc] = dict(store=after, hist=node["hist"] + [(O, crash)])
            res.states += 1
        cache[key] = (sc, counts)
        return cache[key]

    for depth in range(L):
        nxt = []
        last = depth == L - 1
        for canon, c in frontier:
            for O in OPTS:
                if depth == 0 and not _first_allowed(ctx, O):
                    continue
                sc, counts = execute(canon, O, None)
                if not last and c < minc.get(sc, 99):
                    minc[sc] = c
                    nxt.append((sc, c))
                if c < B and not last:
                    for kind, n in (("fit", counts[0]), ("predict", counts[1])):
                        for k in range(1, n + 1):
                            sc2, _ = execute(canon, O, (kind, k))
                            if c + 1 < minc.get(sc2, 99):
                                minc[sc2] = c + 1
                                nxt.append((sc2, c + 1))
        # a state queued twice in one level keeps its smallest crash count only
        best = {}
        for sc, c in nxt:
            best[sc] = min(c, best.get(sc, 99))
        frontier = sorted(best.items(), key=lambda kv: (len(nodes[kv[0]]["hist"]), kv[1]))
        frontier = [(sc, c) for sc, c in frontier]
        if not frontier:
            break


def _play_reuse(ctx, history, shared):
    """run a history; shared: one Orchestrator (and results) object for all runs"""
    from sktime.benchmarking.orchestration import Orchestrator
    from sktime.benchmarking.results import HDDResults, RAMResults

    hdd = ctx.kind == "hdd"
    if hdd:
        _restore(ctx.tmp, {})
    results = HDDResults(path=ctx.tmp) if hdd else RAMResults()
    orch, trace = None, []
    for O, crash in history:
        if orch is None or not shared:
            tasks, datasets, strategies, cv = ctx.make()
            if hdd and orch is not None:
                results = HDDResults(path=ctx.tmp)
            orch = Orchestrator(tasks, datasets, strategies, cv, results)
        _reset_calls(crash)
        out = call(orch.fit_predict, **dict(zip(OPT_NAMES, map(bool, O))))
        _G.crash = None
        kind = out.kind if (out.ok or not out.is_a(Boom)) else "Boom"
        trace.append((kind, _G.nfit, _G.npred))
    final = _canon(ctx, _snapshot(ctx.tmp)) if hdd else _ram_canon(results)
    return trace, final


def _reuse(ctx, J, only=None):
    """every history (O1, crash<=1) -> (O2) executed with one Orchestrator object must leave the
    same store and perform the same numbers of fits / predicts as with a new object per run
    (which the main search judges against the reference)"""
    res = J.res
    if only is not None:
        only = [(tuple(o), tuple(c) if c else None) for o, c in only]
    for O1 in OPTS:
        base, _ = _play_reuse(ctx, [(O1, None)], False)
        crashes = [None] + [("fit", k) for k in range(1, base[0][1] + 1)] + \
            [("predict", k) for k in range(1, base[0][2] + 1)]
        for c1 in crashes:
            for O2 in OPTS:
                hist = [(O1, c1), (O2, None)]
                if only is not None and hist != only:
                    continue
                a = _play_reuse(ctx, hist, False)
                b = _play_reuse(ctx, hist, True)
                res.transitions += 4
                res.states += 1
                res.nt((tuple(sorted(ctx.case.items(), key=str)), O1, c1, O2))
                res.outcome("reuse:%s:%s" % (ctx.kind, b[0][-1][0]))
                if a[0] != b[0]:
                    J.v("reuse:orchestrator:calls", "a second fit_predict on the SAME Orchestrator "
                        "object performs other fits / predicts than a new Orchestrator on the "
                        "same store", hist, expected=a[0], observed=b[0])
                    return
                if a[1] != b[1]:
                    J.v("reuse:orchestrator:store", "the store after a second fit_predict on the "
                        "SAME Orchestrator object differs from that left by a new Orchestrator",
                        hist)
                    return


def _replay(ctx, J, history):
    """exactly one history, judged at every step (the 'plain unit test' form)"""
    res = J.res
    hist = []
    if ctx.kind == "hdd":
        _restore(ctx.tmp, {})
        before = {}
        for O, crash in history:
            O, crash = tuple(O), (tuple(crash) if crash else None)
            after, _, okind = _step_hdd(ctx, J, before, hist, O, crash, deep=True)
            hist = hist + [(O, crash)]
            before = after
            res.states += 1
    else:
        from sktime.benchmarking.results import RAMResults

        store = RAMResults()
        for O, crash in history:
            O, crash = tuple(O), (tuple(crash) if crash else None)
            store, _, _ = _step_ram(ctx, J, store, hist, O, crash)
            hist = hist + [(O, crash)]
            res.states += 1


def run_case(case):
    logging.getLogger().setLevel(logging.ERROR)  # "Skipping strategy ..." on every skip
    res = Result()
    ctx = Ctx(case)
    J = Judge(ctx, res)
    base = "/dev/shm" if os.path.isdir("/dev/shm") and os.access("/dev/shm", os.W_OK) else None
    ctx.tmp = tempfile.mkdtemp(prefix="c19_", dir=base)
    try:
        if case.get("reuse"):
            _reuse(ctx, J, case.get("history"))
        elif case.get("history") is not None:
            _replay(ctx, J, case["history"])
        else:
            _search(ctx, J, case["L"], case["B"])
    finally:
        shutil.rmtree(ctx.tmp, ignore_errors=True)
        _G.crash = None
        _G.muted = False
    res.evals += res.transitions
    return res
