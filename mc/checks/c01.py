"""C01 - temporal CV splitters (engine E1: bounded-exhaustive configuration product)."""
import itertools

import numpy as np
import pandas as pd

from ..core import Result, call, subsets
from ..refs import splitters as ref

ID = "C01"
LEVEL = "exploration"
ANCHORS = [
    "sktime/forecasting/model_selection/_split.py",
    "sktime/utils/validation/forecasting.py",
    "sktime/utils/validation/__init__.py",
]
RULE = (
    "full product of n x fh-subsets x window x step x start_with_window x initial_window "
    "(sliding/expanding), n x fh x window (single), n x cutoff sets (size<=3, scrambled) x "
    "fh x window (cutoff), n x test_size/train_size/fh (temporal_train_test_split); the fh "
    "container (int/list/array/ForecastingHorizon) and the index kind of y (RangeIndex, "
    "integer Index from 5, bare pd.Index) are rotated by case index + VERIF_SEED (thorough: "
    "crossed for n<=8); for n<=9 the window / step / initial-window arguments again as numpy "
    "integers. A case is non-trivial when the reference model says the configuration "
    "is feasible and it yields at least one fold; distinct = distinct (kind, n, fh, W, s, "
    "start_with_window, initial_window / cutoffs / sizes) tuples."
)
ASSUMPTIONS = [
    "in-sample horizons are outside the property's quantifier and not enumerated",
    "infeasible configurations: the code may raise or yield nothing, but must not yield an "
    "invalid fold (rejection itself is C20's subject)",
    "compat layer K3: pd.Int64Index is pd.Index",
]

FHC = ["list", "array", "fh", "int"]
YK = ["range", "int5", "index"]


def _bounds(tier):
    if tier == "thorough":
        return dict(N=14, H=5, S=6, cross_n=8)
    return dict(N=10, H=4, S=3, cross_n=0)


def gen_cases(tier, seed):
    b = _bounds(tier)
    i = 0
    fhs = list(subsets(range(1, b["H"] + 1), max_size=3 if tier == "quick" else 5))
    for n in range(1, b["N"] + 1):
        cross = n <= b["cross_n"]
        reps = list(itertools.product(range(4), range(3))) if cross else [None]
        for fh in fhs:
            for rep in reps:
                def r():
                    nonlocal i
                    i += 1
                    if rep is None:
                        return dict(fhc=FHC[(i + seed) % 4], yk=YK[(i // 4 + seed) % 3])
                    return dict(fhc=FHC[rep[0]], yk=YK[rep[1]])

                # single window
                for W in [None] + list(range(1, n + 1)):
                    yield dict(kind="single", n=n, fh=fh, W=W, **r())
                for W in range(1, n + 2):
                    for s in range(1, b["S"] + 1):
                        for sww in (True, False):
                            yield dict(kind="expanding", n=n, fh=fh, W=W, s=s, sww=sww, **r())
                            for I in [None] + list(range(1, n + 2)):
                                if I is not None and (I <= W - 1 or I > W + 3) and I != n + 1:
                                    # initial windows far from W add no new arithmetic; keep
                                    # I in W..W+3 (includes the rejected I<=W) and n+1
                                    continue
                                yield dict(kind="sliding", n=n, fh=fh, W=W, s=s, sww=sww,
                                           I=I, **r())
                # cutoff splitter
                if n <= 9:
                    for k in (1, 2, 3):
                        for cs in itertools.combinations(range(0, n), k):
                            cs = list(cs)
                            if (len(cs) + n) % 2:
                                cs = cs[::-1]
                            for W in (1, 2, 3, n):
                                yield dict(kind="cutoff", n=n, fh=fh, W=W, cutoffs=cs, **r())
        # the same arithmetic with the integer parameters given as numpy integers (e.g. taken
        # from np.arange in a parameter grid)
        if n <= 9:
            for fh in ([1], [1, 3]):
                for W in range(1, n + 1):
                    yield dict(kind="single", n=n, fh=fh, W=W, pt="np", fhc=FHC[(n + W) % 4],
                               yk=YK[(n + seed) % 3])
                    for s in range(1, b["S"] + 1):
                        for sww in (True, False):
                            yield dict(kind="expanding", n=n, fh=fh, W=W, s=s, sww=sww, pt="np",
                                       fhc=FHC[(n + W + s) % 4], yk=YK[(n + seed) % 3])
                            for I in (None, W + 1, W + 2):
                                yield dict(kind="sliding", n=n, fh=fh, W=W, s=s, sww=sww, I=I,
                                           pt="np", fhc=FHC[(n + W + s) % 4],
                                           yk=YK[(n + seed) % 3])
        # the same splitter instance asked about a second series of another length (nothing may be
        # remembered from the first series)
        if n in (8, 11):
            for kind in ("sliding", "expanding", "single"):
                for fh in ([1], [1, 3], [2]):
                    for W in (2, 4):
                        for s in ((1, 2) if kind != "single" else (1,)):
                            for n2 in (6, 9, 12):
                                for order in ("nsc", "csn", "scn"):
                                    yield dict(kind="reuse", splitter=kind, n=n, n2=n2, fh=fh, W=W,
                                               s=s, order=order)
        # temporal_train_test_split
        for withX in (False, True):
            sizes = [None] + list(range(1, n)) + [("f", k) for k in range(1, n)]
            for ts in sizes:
                for tr in sizes:
                    if ts is not None and tr is not None and (n > 8):
                        continue
                    yield dict(kind="tts", n=n, test_size=ts, train_size=tr, X=withX,
                               yk=YK[(i + seed) % 2])
                    i += 1
            for fh in fhs:
                for rel in (True, False):
                    yield dict(kind="tts_fh", n=n, fh=fh, rel=rel, X=withX,
                               yk=YK[(i + seed) % 2], fhc=FHC[(i + seed) % 3])
                    i += 1
                # absolute time points that end 1 or 3 observations before the end of the series
                for back in (1, 3):
                    yield dict(kind="tts_fh", n=n, fh=fh, rel=False, X=withX, back=back,
                               yk=YK[(i + seed) % 2], fhc=FHC[(i + seed) % 3])
                    i += 1


def _mk_fh(fh, fhc):
    from sktime.forecasting.base import ForecastingHorizon

    if fhc == "int" and len(fh) == 1:
        return int(fh[0])
    if fhc == "array":
        return np.array(fh)
    if fhc == "fh":
        return ForecastingHorizon(np.array(fh), is_relative=True)
    return list(fh)


def _mk_y(n, yk):
    vals = np.arange(n, dtype=float) + 1000.0
    if yk == "range":
        return pd.Series(vals, index=pd.RangeIndex(n))
    if yk == "int5":
        return pd.Series(vals, index=pd.Index(np.arange(5, 5 + n), dtype="int64"))
    return pd.Index(np.arange(3, 3 + n), dtype="int64")


def _invariants(res, case, n, fh, folds_obs, kind, W, s):
    """statement-level invariants, independent of the reference model"""
    prev_c = None
    for tr, te in folds_obs:
        tr = list(map(int, tr))
        te = list(map(int, te))
        if any(p < 0 or p >= n for p in tr + te):
            res.violate("%s:outside" % kind, "position outside the series", observed=(tr, te))
            return
        if tr and tr != list(range(tr[0], tr[-1] + 1)):
            res.violate("%s:noncontiguous" % kind, "training window not contiguous", observed=tr)
            return
        c = tr[-1] if tr else te[0] - fh[0]
        if te != [c + h for h in fh]:
            res.violate("%s:test" % kind, "test positions != cutoff + fh",
                        expected=[c + h for h in fh], observed=te)
            return
        if tr and max(tr) >= min(te):
            res.violate("%s:leak" % kind, "training position at/after a test position",
                        observed=(tr, te))
            return
        if kind in ("sliding", "expanding") and prev_c is not None and c - prev_c != s:
            res.violate("%s:step" % kind, "successive cutoffs do not advance by step_length",
                        expected=s, observed=c - prev_c)
            return
        if kind == "expanding" and tr and tr[0] != 0:
            res.violate("expanding:start", "expanding window does not start at 0", observed=tr)
            return
        prev_c = c


def run_case(case):
    from sktime.forecasting.model_selection import (
        CutoffSplitter, ExpandingWindowSplitter, SingleWindowSplitter,
        SlidingWindowSplitter, temporal_train_test_split)

    res = Result()
    kind = case["kind"]
    n = case["n"]
    if kind in ("tts", "tts_fh"):
        return _run_tts(case, res)
    if kind == "reuse":
        return _run_reuse(case, res)
    fh = case["fh"]
    W = case["W"]
    y = _mk_y(n, case["yk"])
    fhv = _mk_fh(fh, case["fhc"])
    s = case.get("s", 1)
    I = case.get("I")
    if case.get("pt") == "np":
        W, s, I = (None if W is None else np.int64(W)), np.int64(s), \
            (None if I is None else np.int64(I))
    if kind == "sliding":
        exp = ref.window_folds("sliding", n, fh, case["W"], case.get("s", 1), case["sww"],
                               case["I"])
        cv = SlidingWindowSplitter(fh=fhv, window_length=W, step_length=s,
                                   initial_window=I, start_with_window=case["sww"])
    elif kind == "expanding":
        exp = ref.window_folds("expanding", n, fh, case["W"], case.get("s", 1), case["sww"])
        cv = ExpandingWindowSplitter(fh=fhv, initial_window=W, step_length=s,
                                     start_with_window=case["sww"])
    elif kind == "single":
        exp = ref.single_fold(n, fh, case["W"])
        cv = SingleWindowSplitter(fh=fhv, window_length=W)
    else:
        exp = ref.cutoff_folds(n, fh, W, case["cutoffs"])
        cv = CutoffSplitter(np.array(case["cutoffs"]), fh=fhv, window_length=W)

    out = call(lambda: [(np.asarray(a), np.asarray(b)) for a, b in cv.split(y)])
    if exp is None:
        res.outcome(kind + ":infeasible:" + out.kind)
        if out.ok:
            # outside the quantifier ("valid choice"): the only thing judged is that no
            # position outside the series is ever handed out
            for tr, te in out.value:
                if any(p < 0 or p >= n for p in list(tr) + list(te)):
                    res.violate(kind + "-infeasible:outside", "position outside the series",
                                observed=(list(map(int, tr)), list(map(int, te))))
                    break
        return res
    res.outcome(kind + ":feasible:" + out.kind + ":" + str(min(len(exp), 3)))
    if not out.ok:
        res.violate(kind + ":raises", "feasible configuration rejected",
                    expected="%d folds" % len(exp), observed=out.brief())
        return res
    folds = out.value
    if exp:
        res.nt((kind, n, tuple(fh), W, s, case.get("sww"), case.get("I"),
                tuple(case.get("cutoffs", ()))))
    _invariants(res, case, n, fh, folds, kind, W, s)
    obs = [(list(map(int, a)), list(map(int, b))) for a, b in folds]
    if obs != [(a, b) for a, b, _ in exp]:
        res.violate(kind + ":folds", "folds differ from the reference tiling",
                    expected=[(a, b) for a, b, _ in exp][:6], observed=obs[:6])
    # reported cutoffs and n_splits
    co = call(lambda: [int(c) for c in cv.get_cutoffs(y)])
    ns = call(lambda: int(cv.get_n_splits(y)))
    exp_c = [c for _, _, c in exp]
    if not co.ok or co.value != exp_c:
        res.violate(kind + ":get_cutoffs", "reported cutoffs differ from yielded ones",
                    expected=exp_c, observed=co.value if co.ok else co.brief())
    if not ns.ok or ns.value != len(exp):
        res.violate(kind + ":get_n_splits", "reported number of splits differs",
                    expected=len(exp), observed=ns.value if ns.ok else ns.brief())
    return res


def _run_reuse(case, res):
    from sktime.forecasting.model_selection import (
        ExpandingWindowSplitter, SingleWindowSplitter, SlidingWindowSplitter)

    k, fh, W, s = case["splitter"], case["fh"], case["W"], case["s"]
    if k == "sliding":
        cv = SlidingWindowSplitter(fh=fh, window_length=W, step_length=s)
    elif k == "expanding":
        cv = ExpandingWindowSplitter(fh=fh, initial_window=W, step_length=s)
    else:
        cv = SingleWindowSplitter(fh=fh, window_length=W)

    def ask(n, order):
        y = _mk_y(n, "range")
        out = {}
        for ch in order:
            if ch == "n":
                out["n"] = int(cv.get_n_splits(y))
            elif ch == "c":
                out["c"] = [int(c) for c in cv.get_cutoffs(y)]
            else:
                out["s"] = [(list(map(int, a)), list(map(int, b))) for a, b in cv.split(y)]
        return out

    def expect(n):
        e = ref.single_fold(n, fh, W) if k == "single" else ref.window_folds(k, n, fh, W, s, True)
        return e

    e1, e2 = expect(case["n"]), expect(case["n2"])
    if e1 is None or e2 is None:
        return res
    first = call(ask, case["n"], case["order"])
    second = call(ask, case["n2"], case["order"])
    res.outcome("reuse:%s:%s" % (first.kind, second.kind))
    if not first.ok or not second.ok:
        res.violate("reuse:raises", "splitter raised when used for a second series",
                    observed=(first.brief(), second.brief()))
        return res
    res.nt(("reuse", k, case["n"], case["n2"], tuple(fh), W, s, case["order"]))
    want = dict(n=len(e2), c=[c for _, _, c in e2], s=[(a, b) for a, b, _ in e2])
    for key in ("n", "c", "s"):
        if second.value[key] != want[key]:
            res.violate("reuse:%s:%s" % (k, {"n": "get_n_splits", "c": "get_cutoffs",
                                               "s": "split"}[key]),
                        "a splitter that was used on another series before answers differently "
                        "from a fresh one", expected=want[key], observed=second.value[key])
            return res
    return res


def _size(v, n):
    if isinstance(v, (list, tuple)):
        return v[1] / n
    return v


def _run_tts(case, res):
    from sktime.forecasting.base import ForecastingHorizon
    from sktime.forecasting.model_selection import temporal_train_test_split

    n = case["n"]
    y = _mk_y(n, case["yk"] if case["yk"] != "index" else "range")
    X = None
    if case["X"]:
        X = pd.DataFrame({"a": np.arange(n) + 10000.0, "b": np.arange(n) + 20000.0},
                         index=y.index)
    kind = case["kind"]
    if kind == "tts":
        ts, tr = _size(case["test_size"], n), _size(case["train_size"], n)
        exp = ref.tts_sizes(n, ts, tr)
        out = call(lambda: temporal_train_test_split(y, X, test_size=ts, train_size=tr))
        if exp is None:
            res.outcome("tts:infeasible:" + out.kind)
            if not out.ok:
                return res
            n_train = len(out.value[0])
            n_test = len(out.value[1])
        else:
            n_train, n_test = exp
            res.outcome("tts:feasible:" + out.kind)
            if not out.ok:
                res.violate("tts:raises", "valid sizes rejected", expected=exp,
                            observed=out.brief())
                return res
            res.nt(("tts", n, case["test_size"], case["train_size"], case["X"]))
        parts = out.value
        ytr, yte = parts[0], parts[1]
        e_tr = y.iloc[:n_train]
        e_te = y.iloc[n_train:n_train + n_test]
        if not (ytr.equals(e_tr) and yte.equals(e_te)):
            res.violate("tts:parts", "train/test are not the leading n_train and following "
                        "n_test observations", expected=(list(e_tr.index), list(e_te.index)),
                        observed=(list(ytr.index), list(yte.index)))
        if X is not None:
            if not (parts[2].equals(X.iloc[:n_train]) and
                    parts[3].equals(X.iloc[n_train:n_train + n_test])):
                res.violate("tts:X", "X split differs from y split",
                            observed=(list(parts[2].index), list(parts[3].index)))
        return res
    # fh given
    fh = case["fh"]
    H = fh[-1]
    rel = case["rel"]
    c = n - 1 - H  # cutoff position of the relative form
    lab = list(y.index)
    if rel:
        fhv = _mk_fh(fh, case["fhc"])
    else:
        c -= case.get("back", 0)
        if c < 0:
            return res
        # absolute time points: everything before the first requested point is training
        fhv = ForecastingHorizon(np.array([lab[c + h] for h in fh]), is_relative=False)
        fh = [h - (fh[0] - 1) for h in fh]
        c = c + case["fh"][0] - 1
    out = call(lambda: temporal_train_test_split(y, X, fh=fhv))
    if c < 0:
        res.outcome("tts_fh:infeasible:" + out.kind)
        return res
    res.outcome("tts_fh:feasible:" + out.kind)
    if not out.ok:
        res.violate("tts_fh:raises", "valid fh rejected", observed=out.brief())
        return res
    res.nt(("tts_fh", n, tuple(fh), rel, case["X"], case.get("back", 0)))
    parts = out.value
    e_tr = y.iloc[:c + 1]
    e_te = y.iloc[[c + h for h in fh]]
    if not (parts[0].equals(e_tr) and parts[1].equals(e_te)):
        res.violate("tts_fh:parts", "train/test differ from cutoff split",
                    expected=(list(e_tr.index), list(e_te.index)),
                    observed=(list(parts[0].index), list(parts[1].index)))
    if X is not None:
        if not parts[2].equals(X.iloc[:c + 1]):
            res.violate("tts_fh:Xtrain", "X_train differs from y_train rows",
                        observed=list(parts[2].index))
        xt = list(parts[3].index)
        if not xt or xt[0] <= lab[c] or xt[-1] > lab[-1] or xt != sorted(xt) or \
                (case.get("back") and xt[-1] > lab[c + fh[-1]]):
            res.violate("tts_fh:Xtest", "X_test not strictly after the cutoff / inside series",
                        observed=xt)
    return res
