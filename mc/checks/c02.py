"""C02 - ForecastingHorizon algebra (E1 product + E2 conversion histories on one object)."""
import itertools

import numpy as np
import pandas as pd

from ..core import Result, call, subsets

ID = "C02"
LEVEL = "exploration"
ANCHORS = [
    "sktime/forecasting/base/_fh.py",
    "sktime/utils/datetime.py",
    "sktime/utils/validation/forecasting.py",
]
RULE = (
    "all non-empty subsets (size<=4; thorough <=5 over a wider range) of a small integer step "
    "range, in sorted and scrambled order x container (int, list, int64/int32/int16/int8/uint8 array, list of int8 scalars, integer "
    "pd.Index, RangeIndex where expressible) x is_relative x cutoffs {-5,0,3,10,300,-70000} as int and "
    "np.int64; every conversion/predicate compared with a pure-Python set reference. "
    "kind=hist: every sequence of <=2 (thorough <=3) conversions with different cutoffs on ONE "
    "object (lru_cache pollution). kind=reject: every listed malformed input with a valid twin. "
    "non-trivial = horizon with >=2 steps or a sign change; distinct by (steps, order, "
    "container, relative)."
)
ASSUMPTIONS = [
    "K3: float/object pd.Index is never used as a wrongly-typed representative (it passes the "
    "type gate only because of the compat alias)",
    "Period/Datetime horizons excluded (pandas 2 removed Timestamp.freq)",
]

CUTOFFS = [-5, 0, 3, 10, 300, -70000]
CONT = ["list", "arr64", "arr32", "index", "range", "int", "arr8", "arru8", "arr16", "list8"]


def _rng_expressible(steps):
    if len(steps) == 1:
        return True
    d = steps[1] - steps[0]
    return all(b - a == d for a, b in zip(steps, steps[1:]))


def gen_cases(tier, seed):
    lo, hi, mx = (-3, 4, 4) if tier == "quick" else (-4, 5, 5)
    sets = list(subsets(range(lo, hi + 1), max_size=mx))
    for steps in sets:
        for scr in (False, True):
            if scr and len(steps) == 1:
                continue
            for cont in CONT:
                if cont == "int" and len(steps) != 1:
                    continue
                if cont == "range" and not _rng_expressible(steps):
                    continue
                if cont == "arru8" and min(steps) < 0:
                    continue
                for rel in (True, False):
                    yield dict(kind="algebra", steps=steps, scr=scr, cont=cont, rel=rel)
    hsets = [s for s in sets if len(s) <= 3 and (s[0] <= 0 < s[-1] or len(s) == 1)]
    depth = 2 if tier == "quick" else 3
    ops = ["to_relative", "to_absolute", "to_indexer", "to_in_sample", "is_all_out"]
    cut = [0, 3, np.int64(3), 10] if False else ["0", "3", "3n", "10"]
    alphabet = list(itertools.product(ops, cut))
    for steps in hsets:
        for rel in (True, False):
            for d in range(1, depth + 1):
                for hist in itertools.product(alphabet, repeat=d):
                    if d == 3 and len({h[1] for h in hist}) < 2:
                        continue
                    yield dict(kind="hist", steps=steps, rel=rel, hist=[list(h) for h in hist])
    for r in REJECTS:
        yield dict(kind="reject", name=r)


def _scramble(steps):
    s = list(steps)
    if len(s) == 2:
        return s[::-1]
    return s[1::2] + s[0::2][::-1]


def _mk(steps, scr, cont):
    s = _scramble(steps) if scr else list(steps)
    if cont == "int":
        return int(s[0])
    if cont == "list":
        return [int(v) for v in s]
    if cont == "arr64":
        return np.array(s, dtype=np.int64)
    if cont == "arr32":
        return np.array(s, dtype=np.int32)
    if cont in ("arr8", "arru8", "arr16"):
        # narrow integer arrays (e.g. read from a file): cutoff + steps leaves their range
        return np.array(s, dtype={"arr8": np.int8, "arru8": np.uint8, "arr16": np.int16}[cont])
    if cont == "list8":
        return [np.int8(v) for v in s]
    if cont == "index":
        return pd.Index(np.array(s, dtype=np.int64))
    if cont == "range":
        st = sorted(steps)
        d = st[1] - st[0] if len(st) > 1 else 1
        if scr:
            return pd.RangeIndex(st[-1], st[0] - 1, -d)
        return pd.RangeIndex(st[0], st[-1] + 1, d)
    raise ValueError(cont)


def _vals(x):
    if hasattr(x, "to_pandas"):
        x = x.to_pandas()
    return [int(v) for v in list(x)]


def _check_ops(res, fh, S, rel, c, tag):
    """compare all conversions of `fh` at cutoff c with the reference (S = sorted values)"""
    relS = S if rel else [a - c for a in S]
    absS = [c + s for s in S] if rel else S

    def exp_eq(name, out, expected, rel_flag=None):
        if not out.ok:
            res.violate("%s:%s:raises" % (tag, name), name + " raised on a valid horizon",
                        expected=expected, observed=out.brief())
            return
        v = out.value
        got = _vals(v) if not isinstance(v, (bool, np.bool_, int)) else v
        if got != expected:
            res.violate("%s:%s" % (tag, name), name + " differs from the reference",
                        expected=dict(values=expected, cutoff=int(c), steps=S, relative=rel),
                        observed=got)
        elif rel_flag is not None and getattr(v, "is_relative", rel_flag) is not rel_flag:
            res.violate("%s:%s:flag" % (tag, name), name + " has the wrong is_relative flag",
                        expected=rel_flag, observed=v.is_relative)

    exp_eq("to_relative", call(lambda: fh.to_relative(c)), relS, True)
    exp_eq("to_absolute", call(lambda: fh.to_absolute(c)), absS, False)
    exp_eq("roundtrip_rel", call(lambda: fh.to_absolute(c).to_relative(c)), relS, True)
    exp_eq("roundtrip_abs", call(lambda: fh.to_relative(c).to_absolute(c)), absS, False)
    mine = S  # own representation
    ins = [m for m, r in zip(mine, relS) if r <= 0]
    oos = [m for m, r in zip(mine, relS) if r > 0]
    exp_eq("to_in_sample", call(lambda: fh.to_in_sample(c)), ins, rel)
    exp_eq("to_out_of_sample", call(lambda: fh.to_out_of_sample(c)), oos, rel)
    exp_eq("is_all_in_sample", call(lambda: bool(fh.is_all_in_sample(c))), len(oos) == 0)
    exp_eq("is_all_out_of_sample", call(lambda: bool(fh.is_all_out_of_sample(c))),
           len(ins) == 0)
    exp_eq("to_indexer", call(lambda: fh.to_indexer(c)), [r - 1 for r in relS])
    exp_eq("to_indexer_first", call(lambda: fh.to_indexer(c, from_cutoff=False)),
           [r - relS[0] for r in relS])
    for start in (c - 4, 0):
        exp_eq("to_absolute_int", call(lambda: fh.to_absolute_int(start, c)),
               [a - start for a in absS], False)


def _cut(tok):
    return {"0": 0, "3": 3, "3n": np.int64(3), "10": 10, "-5": -5}[tok]


def run_case(case):
    from sktime.forecasting.base import ForecastingHorizon

    res = Result()
    kind = case["kind"]
    if kind == "reject":
        return _run_reject(case, res)
    S = sorted(case["steps"])
    rel = case["rel"]
    if kind == "algebra":
        v = _mk(case["steps"], case["scr"], case["cont"])
        out = call(lambda: ForecastingHorizon(v, is_relative=rel))
        if not out.ok:
            res.violate("ctor:raises", "valid horizon rejected", observed=out.brief())
            return res
        fh = out.value
        if len(S) > 1:
            res.nt((tuple(S), case["scr"], case["cont"], rel))
        if _vals(fh) != S:
            res.violate("ctor:sorted", "values not stored sorted", expected=S, observed=_vals(fh))
        if fh.is_relative is not rel:
            res.violate("ctor:flag", "is_relative flag lost")
        d = [call(lambda: len(fh)), call(lambda: int(fh[-1])), call(lambda: int(fh.min())),
             call(lambda: int(fh.max())), call(lambda: int(fh[0]))]
        expd = [len(S), S[-1], S[0], S[-1], S[0]]
        got = [o.value if o.ok else o.brief() for o in d]
        if got != expd:
            res.violate("delegated", "len/[-1]/min/max/[0] differ", expected=expd, observed=got)
        if rel:
            # relative horizons need no cutoff for relative-only questions
            o = call(lambda: (_vals(fh.to_relative()), _vals(fh.to_in_sample()),
                              _vals(fh.to_out_of_sample()), bool(fh.is_all_out_of_sample()),
                              bool(fh.is_all_in_sample()), _vals(fh.to_indexer())))
            e = (S, [s for s in S if s <= 0], [s for s in S if s > 0], all(s > 0 for s in S),
                 all(s <= 0 for s in S), [s - 1 for s in S])
            if not o.ok or o.value != e:
                res.violate("nocutoff", "relative horizon without cutoff differs", expected=e,
                            observed=o.value if o.ok else o.brief())
        for c in CUTOFFS:
            for cc in (c, np.int64(c)):
                _check_ops(res, fh, S, rel, cc, "alg")
                res.evals += 1
        res.outcome("algebra:%s:%s" % (case["cont"], rel))
        return res
    # hist: one object, a sequence of conversions with different cutoffs; only the last is judged
    fh = ForecastingHorizon(list(S), is_relative=rel)
    res.states = 1
    for op, ctok in case["hist"]:
        c = _cut(ctok)
        relS = S if rel else [a - c for a in S]
        absS = [c + s for s in S] if rel else S
        if op == "to_relative":
            o, e = call(lambda: _vals(fh.to_relative(c))), relS
        elif op == "to_absolute":
            o, e = call(lambda: _vals(fh.to_absolute(c))), absS
        elif op == "to_indexer":
            o, e = call(lambda: _vals(fh.to_indexer(c))), [r - 1 for r in relS]
        elif op == "to_in_sample":
            o, e = (call(lambda: _vals(fh.to_in_sample(c))),
                    [m for m, r in zip(S, relS) if r <= 0])
        else:
            o, e = call(lambda: bool(fh.is_all_out_of_sample(c))), all(r > 0 for r in relS)
        res.transitions += 1
        res.states += 1
        if not o.ok or o.value != e:
            res.violate("hist:%s" % op, "conversion after earlier conversions on the same object "
                        "differs from the reference (cache pollution?)", expected=e,
                        observed=o.value if o.ok else o.brief())
            break
    res.nt((tuple(S), rel, tuple(map(tuple, case["hist"]))))
    res.outcome("hist:%d" % len(case["hist"]))
    return res


class _Twin:
    pass


def _rejects():
    from sktime.forecasting.base import ForecastingHorizon as FH
    from sktime.utils.validation.forecasting import check_fh

    R = {}
    # name -> (faulty thunk, valid twin thunk)
    R["dup_list"] = (lambda: FH([1, 2, 2]), lambda: FH([1, 2, 3]))
    R["dup_array"] = (lambda: FH(np.array([3, 1, 3])), lambda: FH(np.array([3, 1, 2])))
    R["dup_index"] = (lambda: FH(pd.Index([1, 1], dtype="int64")),
                      lambda: FH(pd.Index([1, 2], dtype="int64")))
    R["dup_abs"] = (lambda: FH([5, 5], is_relative=False), lambda: FH([5, 6], is_relative=False))
    R["frac_list"] = (lambda: FH([1, 2.5]), lambda: FH([1, 2]))
    R["frac_array"] = (lambda: FH(np.array([0.5, 1.0])), lambda: FH(np.array([1, 2])))
    R["frac_scalar"] = (lambda: FH(1.5), lambda: FH(1))
    R["frac_scalar_np"] = (lambda: FH(np.float64(2.0)), lambda: FH(np.int64(2)))
    R["str"] = (lambda: FH("1"), lambda: FH(1))
    R["list_str"] = (lambda: FH(["a", "b"]), lambda: FH([1, 2]))
    R["dict"] = (lambda: FH({1: 2}), lambda: FH([1]))
    R["set"] = (lambda: FH({1, 2}), lambda: FH([1, 2]))
    R["tuple"] = (lambda: FH((1, 2)), lambda: FH([1, 2]))
    R["series"] = (lambda: FH(pd.Series([1, 2])), lambda: FH(pd.Series([1, 2]).values))
    R["timedelta"] = (lambda: FH(pd.TimedeltaIndex([1, 2], unit="D")), lambda: FH([1, 2]))
    R["none_values"] = (lambda: FH(None), lambda: FH(1))
    R["bool_values"] = (lambda: FH(True), lambda: FH(1))
    R["isrel_int"] = (lambda: FH([1], is_relative=1), lambda: FH([1], is_relative=True))
    R["isrel_str"] = (lambda: FH([1], is_relative="yes"), lambda: FH([1], is_relative=False))
    R["isrel_none"] = (lambda: FH([1], is_relative=None), lambda: FH([1], is_relative=True))
    R["check_empty_list"] = (lambda: check_fh([]), lambda: check_fh([1]))
    R["check_empty_array"] = (lambda: check_fh(np.array([], dtype=int)),
                              lambda: check_fh(np.array([1])))
    R["check_abs_enforce_rel"] = (
        lambda: check_fh(FH([3], is_relative=False), enforce_relative=True),
        lambda: check_fh(FH([3], is_relative=True), enforce_relative=True))
    R["check_frac"] = (lambda: check_fh([1.5]), lambda: check_fh([1]))
    R["check_dup"] = (lambda: check_fh([2, 2]), lambda: check_fh([2, 3]))
    R["abs_no_cutoff_rel"] = (lambda: FH([3], is_relative=False).to_relative(),
                              lambda: FH([3], is_relative=False).to_relative(1))
    R["rel_no_cutoff_abs"] = (lambda: FH([3]).to_absolute(None), lambda: FH([3]).to_absolute(1))
    return R


REJECTS = ["dup_list", "dup_array", "dup_index", "dup_abs", "frac_list", "frac_array",
           "frac_scalar", "frac_scalar_np", "str", "list_str", "dict", "set", "tuple", "series",
           "timedelta", "none_values", "bool_values", "isrel_int", "isrel_str", "isrel_none",
           "check_empty_list", "check_empty_array", "check_abs_enforce_rel", "check_frac",
           "check_dup", "abs_no_cutoff_rel", "rel_no_cutoff_abs"]

# representatives that the statement does not list and current code accepts/handles in an
# unlisted way are not judged (bool scalar is an int subclass; tuple is not a documented type)
NOT_JUDGED = {"bool_values"}


def _run_reject(case, res):
    name = case["name"]
    bad, good = _rejects()[name]
    ob, og = call(bad), call(good)
    res.outcome("reject:%s:%s" % (name, ob.kind))
    res.nt(("reject", name))
    if not og.ok:
        res.violate("reject:%s:twin" % name, "valid twin rejected", observed=og.brief())
    if name in NOT_JUDGED:
        return res
    if ob.ok:
        res.violate("reject:%s:accepted" % name, "malformed horizon accepted (coerced)",
                    expected="ValueError/TypeError", observed=repr(ob.value)[:200])
    elif not ob.is_a(ValueError, TypeError, NotImplementedError):
        res.violate("reject:%s:type" % name, "rejected with an unrelated exception",
                    expected="ValueError/TypeError", observed=ob.brief())
    return res
