"""C05 - reduction feeds regressors exactly the lagged windows, never the future (E1)."""
import numpy as np
import pandas as pd

from ..core import Result, call, subsets

ID = "C05"
LEVEL = "exploration"
ANCHORS = ["sktime/forecasting/compose/_reduce.py", "sktime/forecasting/base/_sktime.py"]
RULE = (
    "full product n x window_length x fh (every non-empty subset of {1..4}) x strategy "
    "(direct, recursive, multioutput, dirrec) x scitype (tabular, time-series) x exogenous "
    "columns {0,1,2} x series dtype {float, int64; rotated with the case index} x history {fit->predict, fit->update(batch, update_params False/True)->"
    "predict, refit of a forecaster used before with another window length, fit->predict->predict, "
    "fit->predict->update(refit)->predict, recursive: fit->update_predict over a splitter with "
    "another horizon}; index start rotated by case index+seed. Oracle: recording regressors + a "
    "plain-loop reference tabulariser + tag-decoding leak monitor. non-trivial = feasible "
    "configuration whose training rows and prediction inputs were compared."
)
ASSUMPTIONS = [
    "'all full windows' = every window for which the whole requested horizon fits (the "
    "reading the code documents); recursive uses a one-step target regardless of fh",
    "dirrec with exogenous data must raise NotImplementedError (documented)",
    "tagged values y[t]=1000+t, X[t,j]=10000(j+1)+t; wrapped regressors answer fresh tokens",
]
STRATS = ["direct", "recursive", "multioutput", "dirrec"]


def gen_cases(tier, seed):
    N = range(6, 11) if tier == "quick" else range(5, 14)
    WS = range(1, 4) if tier == "quick" else range(1, 6)
    HMAX = 4 if tier == "quick" else 5
    i = 0
    for n in N:
        for W in WS:
            for fh in subsets(range(1, HMAX + 1), max_size=3 if tier == "quick" else 4):
                for strat in STRATS:
                    for sci in ("tab", "ts"):
                        for nx in (0, 1, 2):
                            hists = ["fp", "fup", "fUp", "Rfp", "fpp", "fpUp"]
                            if strat == "recursive" and nx == 0:
                                hists.append("fQ")
                            for hist in hists:
                                i += 1
                                yield dict(n=n, W=W, fh=fh, strategy=strat, sci=sci, nx=nx,
                                           hist=hist, start=7 if (i + seed) % 2 else 0,
                                           dtype="int" if (i // 2 + seed) % 2 else "float")


def _data(n, nx, start, extra=0, dtype="float"):
    idx = pd.RangeIndex(start, start + n + extra)
    t = np.arange(n + extra, dtype=float)
    y = pd.Series(1000.0 + t, index=idx)
    if dtype == "int":
        y = y.astype("int64")  # count data: fed-back (fractional) tokens must not be truncated
    X = None
    if nx:
        X = pd.DataFrame({"x%d" % j: 10000.0 * (j + 1) + t for j in range(nx)}, index=idx)
    return y, X


def ref_rows(n, W, fhs, nx, one_step=False):
    """reference tabulariser: list of (feature rows [variable-major], targets per step)"""
    H = 1 if one_step else fhs[-1]
    steps = [1] if one_step else fhs
    rows = []
    for r in range(0, n - (W + H - 1)):
        feats = [[1000.0 + t for t in range(r, r + W)]]
        for j in range(nx):
            feats.append([10000.0 * (j + 1) + t for t in range(r, r + W)])
        targets = [1000.0 + (r + W - 1 + h) for h in steps]
        rows.append((feats, targets))
    return rows


def _decode_time(v):
    """tag -> time position (y and X tags); tokens are not decodable (return None)"""
    if 1000.0 <= v < 5000.0:
        return v - 1000.0
    if v >= 10000.0:
        return v % 10000.0
    return None


def run_case(case):
    from sktime.forecasting.compose import make_reduction
    from .. import doubles

    res = Result()
    n, W, fh, strat, sci, nx, hist = (case[k] for k in
                                      ("n", "W", "fh", "strategy", "sci", "nx", "hist"))
    start = case["start"]
    H = fh[-1]
    doubles.reset_tokens()
    reg = doubles.RecRegressor() if sci == "tab" else doubles.RecTSRegressor()
    extra = 2 if hist in ("fup", "fUp", "fpUp") else (fh[-1] + 4 if hist == "fQ" else 0)
    y_all, X_all = _data(n, nx, start, extra, case.get("dtype", "float"))
    y, X = y_all.iloc[:n], (None if X_all is None else X_all.iloc[:n])
    f = make_reduction(reg, strategy=strat, window_length=W)
    if hist == "Rfp":
        # the same forecaster object was used before with another window length
        f = make_reduction(reg, strategy=strat, window_length=W + 1)
        call(lambda: f.fit(y.copy(), None if X is None else X.copy(), fh=fh))
        f.set_params(window_length=W)
    one_step = strat == "recursive"
    feasible = (W + (1 if one_step else H) <= n)
    o = call(lambda: f.fit(y.copy(), None if X is None else X.copy(), fh=fh))
    if strat == "dirrec" and nx:
        res.outcome("dirrec+X:" + o.kind)
        if not o.is_a(NotImplementedError):
            res.violate("dirrec:X", "dirrec with exogenous data must raise NotImplementedError",
                        observed=o.brief())
        return res
    if not feasible:
        res.outcome("infeasible:" + o.kind)
        if o.ok:
            res.violate("fit:infeasible-accepted", "window+horizon longer than the series "
                        "accepted by fit", observed="fitted")
        return res
    if not o.ok:
        res.violate("%s:fit" % strat, "feasible configuration rejected", observed=o.brief())
        return res
    res.nt((n, W, tuple(fh), strat, sci, nx, hist))
    res.outcome("%s:%s:nx%d:%s" % (strat, sci, nx, hist))

    # ---- training rows
    def check_fit(f, n_eff):
        rows = ref_rows(n_eff, W, fh, nx, one_step)
        ests = [f.estimator_] if strat in ("recursive", "multioutput") else list(f.estimators_)
        exp_n = 1 if strat in ("recursive", "multioutput") else len(fh)
        if len(ests) != exp_n:
            res.violate("%s:n_estimators" % strat, "wrong number of fitted regressors",
                        expected=exp_n, observed=len(ests))
            return
        for i, est in enumerate(ests):
            fx, fy = est.fit_X_, est.fit_y_
            exp_X, exp_y = [], []
            for feats, targets in rows:
                if strat == "dirrec":
                    # window + the first i targets (only y, no exogenous support)
                    flat = [list(feats[0]) + targets[:i]]
                else:
                    flat = feats
                if sci == "tab":
                    exp_X.append([v for var in flat for v in var])
                else:
                    exp_X.append(flat)
                if strat == "multioutput":
                    exp_y.append(targets)
                elif strat == "recursive":
                    exp_y.append(targets[0])
                else:
                    exp_y.append(targets[i])
            exp_X, exp_y = np.array(exp_X, dtype=float), np.array(exp_y, dtype=float)
            if fx.shape != exp_X.shape or not np.array_equal(fx, exp_X):
                res.violate("%s:%s:fitX" % (strat, sci), "training features differ from the "
                            "reference lag windows", expected=exp_X[:2].tolist(),
                            observed=dict(shape=list(fx.shape), head=fx[:2].tolist()))
                return
            if fy.reshape(exp_y.shape).shape != exp_y.shape or \
                    not np.array_equal(fy.reshape(exp_y.shape), exp_y):
                res.violate("%s:%s:fity" % (strat, sci), "training targets differ from "
                            "'exactly h steps after the window'", expected=exp_y[:3].tolist(),
                            observed=fy[:3].tolist())
                return
            # independent leak monitor on what the regressor really received
            fx2 = fx.reshape(fx.shape[0], -1)
            fy2 = fy.reshape(fy.shape[0], -1)
            for r in range(fx2.shape[0]):
                ft = [_decode_time(v) for v in fx2[r]]
                tt = min(_decode_time(v) for v in fy2[r])
                if any(t is None or t >= tt for t in ft):
                    res.violate("%s:leak" % strat, "a training row contains its own target or "
                                "a later value", observed=dict(row=fx2[r].tolist(),
                                                               target=fy2[r].tolist()))
                    return

    check_fit(f, n)
    if res.violations:
        return res

    def check_predict(n_eff):
        c = n_eff - 1  # cutoff position
        if f.cutoff != start + c:
            res.violate("cutoff", "cutoff is not the last observed time point",
                        expected=start + c, observed=f.cutoff)
            return
        Xf = None
        if nx and strat == "recursive":
            t = np.arange(n_eff, n_eff + H, dtype=float)
            Xf = pd.DataFrame({"x%d" % j: 10000.0 * (j + 1) + t for j in range(nx)},
                              index=pd.RangeIndex(start + n_eff, start + n_eff + H))
        ests = [f.estimator_] if strat in ("recursive", "multioutput") else list(f.estimators_)
        for e in ests:
            e.pred_X_, e.pred_out_ = [], []
        p = call(lambda: f.predict(X=Xf) if Xf is not None else f.predict())
        if not p.ok:
            res.violate("%s:predict" % strat, "predict raised", observed=p.brief())
            return
        got = p.value
        lab = [start + c + h for h in fh]
        if list(got.index) != lab:
            res.violate("predict:index", "forecast index != cutoff + fh", expected=lab,
                        observed=list(got.index))
            return
        lastwin = [[1000.0 + t for t in range(c - W + 1, c + 1)]]
        for j in range(nx):
            lastwin.append([10000.0 * (j + 1) + t for t in range(c - W + 1, c + 1)])

        def shape_in(flat):
            a = np.array(flat, dtype=float)
            return a.reshape(1, -1) if sci == "tab" else a.reshape(1, a.shape[0], a.shape[1])

        vals = [float(v) for v in got.values]
        if strat in ("direct", "multioutput"):
            for i, e in enumerate(ests):
                if len(e.pred_X_) != 1 or not np.array_equal(e.pred_X_[0], shape_in(lastwin)):
                    res.violate("%s:predX" % strat, "prediction input is not the last "
                                "window_length observed values", expected=lastwin,
                                observed=[x.tolist() for x in e.pred_X_])
                    return
            if strat == "direct":
                exp = [float(e.pred_out_[0][0, 0]) for e in ests]
            else:
                exp = [float(v) for v in ests[0].pred_out_[0][0]]
            if vals != exp:
                res.violate("%s:predy" % strat, "forecast for step h is not the regressor output "
                            "for step h", expected=exp, observed=vals)
        elif strat == "recursive":
            e = ests[0]
            if len(e.pred_X_) != H:
                res.violate("recursive:ncalls", "recursive strategy must call the regressor once "
                            "per step up to max(fh)", expected=H, observed=len(e.pred_X_))
                return
            toks = []
            for i in range(H):
                ywin = [1000.0 + t for t in range(c - W + 1 + i, c + 1)] + toks
                ywin = ywin[-W:] if len(ywin) > W else ywin
                # window of the W values preceding time c+1+i: observed then earlier tokens
                ywin = ([1000.0 + t for t in range(c + 1 + i - W, c + 1)] + toks)[-W:]
                flat = [ywin]
                for j in range(nx):
                    flat.append([10000.0 * (j + 1) + t for t in range(c + 1 + i - W, c + 1 + i)])
                if not np.array_equal(e.pred_X_[i], shape_in(flat)):
                    res.violate("recursive:feedback", "window for step %d does not hold the "
                                "earlier predictions as newest lags" % (i + 1), expected=flat,
                                observed=e.pred_X_[i].tolist())
                    return
                toks.append(float(e.pred_out_[i][0, 0]))
            exp = [toks[h - 1] for h in fh]
            if vals != exp:
                res.violate("recursive:predy", "forecast for step h is not the regressor output "
                            "for step h", expected=exp, observed=vals)
        else:  # dirrec
            toks = []
            for i, e in enumerate(ests):
                flat = [lastwin[0] + toks]
                if len(e.pred_X_) != 1 or not np.array_equal(e.pred_X_[0], shape_in(flat)):
                    res.violate("dirrec:feedback", "dirrec estimator %d input is not window + "
                                "earlier predictions" % i, expected=flat,
                                observed=[x.tolist() for x in e.pred_X_])
                    return
                toks.append(float(e.pred_out_[0][0, 0]))
            if vals != toks:
                res.violate("dirrec:predy", "forecast for step h is not the regressor output",
                            expected=toks, observed=vals)

    # ---- optional update
    n_eff = n
    if hist in ("fpp", "fpUp"):
        check_predict(n)
        if res.violations:
            return res
    if hist == "fQ":
        _update_predict_other_horizon(res, f, y_all, n, W, fh, start)
        return res
    if hist in ("fup", "fUp", "fpUp"):
        up = hist != "fup"
        yb = y_all.iloc[n:n + 2]
        Xb = None if X_all is None else X_all.iloc[n:n + 2]
        o = call(lambda: f.update(yb.copy(), None if Xb is None else Xb.copy(),
                                  update_params=up))
        if not o.ok:
            res.violate("%s:update" % strat, "update raised", observed=o.brief())
            return res
        n_eff = n + 2
        if up:
            check_fit(f, n_eff)
            if res.violations:
                return res
    check_predict(n_eff)
    return res


def _update_predict_other_horizon(res, f, y_all, n, W, fh, start):
    """recursive reducer fitted with horizon fh, then update_predict over a splitter whose
    horizon differs: the forecast for step h of every window is the regressor output for step h"""
    from sktime.forecasting.model_selection import SlidingWindowSplitter

    fh2 = [h + 1 for h in fh]
    H2 = fh2[-1]
    y_new = y_all.iloc[n:n + H2 + 3]  # three windows whose whole horizon lies inside y_new
    cv = SlidingWindowSplitter(fh=fh2, window_length=1, step_length=1, start_with_window=True)
    e = f.estimator_
    e.pred_X_, e.pred_out_ = [], []
    o = call(lambda: f.update_predict(y_new.copy(), cv, update_params=False))
    if not o.ok:
        res.violate("recursive:update_predict", "update_predict with another horizon raised",
                    observed=o.brief())
        return
    got = o.value
    nwin = 3
    if len(e.pred_out_) != nwin * H2:
        res.violate("recursive:update_predict:ncalls", "recursive strategy must call the "
                    "regressor once per step up to max(fh) for every window",
                    expected=nwin * H2, observed=len(e.pred_out_))
        return
    for k in range(nwin):
        toks = [float(e.pred_out_[k * H2 + i][0, 0]) for i in range(H2)]
        exp = [toks[h - 1] for h in fh2]
        c = start + n + k  # cutoff label of window k
        lab = [c + h for h in fh2]
        if isinstance(got, pd.DataFrame):
            col = got.iloc[:, k].dropna().sort_index()
            gi, gv = [int(i) for i in col.index], [float(v) for v in col.values]
        else:
            gi, gv = [int(got.index[k])], [float(got.iloc[k])]
        if gi != lab or gv != exp:
            res.violate("recursive:update_predict:predy", "forecast for step h (update_predict "
                        "with a horizon other than the one given to fit) is not the regressor "
                        "output for step h", expected=dict(index=lab, values=exp),
                        observed=dict(index=gi, values=gv))
            return
