"""C14 - closed-form transformers compute exactly the function they document (E1)."""
import itertools
import math

import numpy as np
import pandas as pd

from ..core import Result, call, close
from ..refs import transformers as ref

ID = "C14"
LEVEL = "exploration"
ANCHORS = [
    "sktime/transformations/panel/padder.py",
    "sktime/transformations/panel/truncation.py",
    "sktime/transformations/panel/interpolate.py",
    "sktime/transformations/panel/reduce.py",
    "sktime/transformations/panel/compose.py",
    "sktime/transformations/panel/segment.py",
    "sktime/transformations/panel/dictionary_based/_paa.py",
    "sktime/transformations/panel/summarize/_extract.py",
    "sktime/transformations/panel/slope.py",
    "sktime/transformations/series/impute.py",
    "sktime/transformations/series/cos.py",
    "sktime/transformations/series/boxcox.py",
    "sktime/transformations/series/acf.py",
    "sktime/transformations/series/adapt.py",
    "sktime/transformations/series/summarize.py",
    "sktime/utils/slope_and_trend.py",
    "sktime/utils/data_processing.py",
]
RULE = (
    "panels = instances 1-3 x columns 1-2 x (equal length 2-8 | every non-constant assignment of "
    "lengths from {3,4,5,6} to the instances, for 2 columns also with the lengths rotated between "
    "the columns) x cell kind (pd.Series | np.array; 3-D numpy for Tabularizer/ColumnConcatenator/"
    "row transformers), values tagged 100 i + 10 c + t + 0.5.  Per transformer the full product "
    "with its option grid: padder pad_length None/max/max+1/max+3/(max-1 rejected) x fill 0/-1/NaN x "
    "transform panel same/other; truncation None, lower 1..min, every 0<=lower<upper<=min; "
    "interpolation length 1-10; PAA and SlopeTransformer for every (series length <= 30 quick / 40 "
    "thorough, number of intervals) pair and both value families; PAA / SlopeTransformer / IntervalSegmenter(int) number of intervals "
    "1..L(+1); IntervalSegmenter(array) every list of 1-2 intervals 0<=s<e<=L (L<=5; singles for all "
    "L); SlidingWindowSegmenter window 1..L+1; RandomIntervalSegmenter / RandomIntervalFeatureExtractor "
    "n_intervals 1..L, sqrt, log, random, 0.5 x random_state 0-9 with the fitted intervals_ read "
    "back; PlateauFinder every 0/1 pattern of length 1-6 x value 1/NaN/inf x min_length 1-3; row "
    "transformers wrapping Cos/Log/Mean/TabularToSeriesAdaptor; Imputer 11 methods x every NaN "
    "pattern of <=2 positions in a series of length 1-6 x Series(index from 0 | from 5)/DataFrame "
    "(+ placeholders -1, 0); Cosine/Mean length 1-8; ACF length 3-10 x lags None,1..L-1 x adjusted x "
    "fft; PACF length 6-12 x lags x 4 methods; TabularToSeriesAdaptor x MinMax/Standard/log1p x "
    "fit series same/other; utils _slope/_fit_trend.  VERIF_SEED only rotates the value family "
    "(pure tags | tags + a non-linear wiggle < 0.5) of the copy-type transformers; numeric "
    "transformers run both families.  Tier thorough: instances 1-4, equal length 2-10, unequal "
    "lengths from {3..7}, random_state 0-19, 2-interval lists up to L=6, plateau patterns up to "
    "length 8, Imputer <=3 NaN in length <=8, ACF length <=14, PACF length <=16.  non-trivial = configuration accepted by the transformer and "
    "compared cell by cell with the reference; distinct = distinct case dict."
)
ASSUMPTIONS = [
    "unequal-length panels: Tabularizer, ColumnConcatenator, PAA, SlopeTransformer, the segmenters, "
    "RandomIntervalFeatureExtractor and the row transformers do not support them (they raise while "
    "converting to a rectangular array); any exception there is accepted, only the supporting "
    "transformers (padder, truncation, interpolator, derivative, plateau) are judged",
    "multi-column input to univariate-only transformers (segmenters, extractor, plateau) is not "
    "enumerated (rejection is C20's subject)",
    "output cell container type (Series vs ndarray), column names and index labels are not judged; "
    "rows are compared by position (SeriesToSeriesRowTransformer returns a duplicated index "
    "[0,0,..], recorded as outcome class only)",
    "padder: pad_length shorter than the longest series is outside the docstring ('longer than the "
    "longest series'); whatever happens is accepted",
    "truncation: lower=None with upper given and lower=0 without upper are undocumented and not "
    "enumerated; bounds beyond the shortest series: any outcome accepted",
    "IntervalSegmenter(ndarray): 'end points' are read as exclusive, as in RandomIntervalSegmenter "
    "where end - start is the documented interval length; IntervalSegmenter(int): a ValueError for "
    "more than L//2 intervals is accepted; when accepted, the output must contain exactly the "
    "values at the fitted index arrays intervals_ ('using interval indices generated during fit')",
    "RandomIntervalSegmenter: min_length/max_length are undocumented; fitted intervals only need "
    "0 <= start < end <= L, the documented count, and to be reproducible for an int random_state",
    "RandomIntervalFeatureExtractor: column order is undocumented; every column is checked against "
    "the (start, end, function) in its own name, and the multiset of names against intervals_",
    "SlidingWindowSegmenter: for even windows the docstring recipe yields L+1 windows, the "
    "documented output shape [n_instances, n_timepoints] keeps the first L",
    "SlopeTransformer: 'approx equal segments' are taken as [floor(kL/n), floor((k+1)L/n)); "
    "segments with zero covariance (single point, flat) have no defined TLS slope - any value",
    "DerivativeSlopeTransformer has no docstring; oracle = Keogh & Pazzani (2001) derivative; "
    "series shorter than 3: any outcome",
    "Imputer: ends that a method cannot reach are constant extensions of the nearest observed "
    "value (code comment, pd.Series.interpolate docs); 'nearest' ties accept either neighbour; "
    "'drift' accepts the least-squares line through the observed points or through the "
    "ffill/bfill pre-filled series; 'random' only needs min <= v <= max; all-NaN series: anything; "
    "method='forecaster' is not closed-form and not enumerated",
    "ACF/PACF: oracle is the direct statsmodels call with the same arguments (plus a plain-loop "
    "ACF); when statsmodels itself raises, the transformer may raise too",
    "TabularToSeriesAdaptor on a DataFrame returns columns renamed 0..k-1 (names not judged)",
    "_fit_trend: coefficient order (highest power first) is undocumented and accepted; judged on "
    "the fitted values",
    "single-series transformers are given pd.Series / pd.DataFrame only (documented input types)",
    "3-D numpy input to Tabularizer returns a 2-D ndarray instead of the documented DataFrame; "
    "the container is not judged, only the values",
]

UNEQ = {"quick": [3, 4, 5, 6], "thorough": [3, 4, 5, 6, 7]}
EQ = {"quick": list(range(2, 9)), "thorough": list(range(2, 11))}
NMAX = {"quick": 3, "thorough": 4}
RS = {"quick": 10, "thorough": 20}


# ------------------------------------------------------------------------------ enumeration
def _eq_shapes(tier, cols=(1, 2)):
    for n in range(1, NMAX[tier] + 1):
        for c in cols:
            for L in EQ[tier]:
                yield [[L] * c for _ in range(n)]


def _uneq_shapes(tier):
    U = UNEQ[tier]
    for n in (2, 3):
        for tup in itertools.product(U, repeat=n):
            if len(set(tup)) == 1:
                continue
            yield [[l] for l in tup]
            yield [[l, l] for l in tup]
            yield [[tup[i], tup[(i + 1) % n]] for i in range(n)]
    for a, b in itertools.permutations(U, 2):
        yield [[a, b]]


def _all_shapes(tier):
    for s in _eq_shapes(tier):
        yield s
    for s in _uneq_shapes(tier):
        yield s


def _is_equal(lens):
    return len({l for row in lens for l in row}) == 1


def _col_equal(lens):
    """every column holds series of one length (the panel is rectangular column by column,
    e.g. a single instance whose two columns differ in length)"""
    return all(row == lens[0] for row in lens)


def gen_cases(tier, seed):
    ctr = itertools.count()

    def fam():
        return (next(ctr) + seed) % 2

    cells = ("series", "array")
    # ---- padder / truncation / interpolator (support unequal length)
    for lens in _all_shapes(tier):
        for cell in cells:
            for rel in (None, 0, 1, 3, -1):
                for fill in (0, -1, "nan"):
                    for xf in ("same", "other"):
                        yield dict(kind="padder", lens=lens, cell=cell, fam=fam(), rel=rel,
                                   fill=fill, xf=xf)
            mn = min(l for row in lens for l in row)
            bounds = [(None, None)] + [(k, None) for k in range(1, mn + 2)]
            bounds += [(a, b) for a in range(0, mn) for b in range(a + 1, mn + 1)]
            for lo, up in bounds:
                for xf in ("same", "other"):
                    yield dict(kind="trunc", lens=lens, cell=cell, fam=fam(), lower=lo,
                               upper=up, xf=xf)
            for m in range(1, 11):
                for f in (0, 1):
                    yield dict(kind="interp", lens=lens, cell=cell, fam=f, length=m)
            for f in (0, 1):
                yield dict(kind="deriv", lens=lens, cell=cell, fam=f)
    # ---- rectangular panels only
    for lens in _all_shapes(tier):
        eq = _is_equal(lens)
        for cell in cells + ("np3d",):
            if cell == "np3d" and not eq:
                continue
            yield dict(kind="tabular", lens=lens, cell=cell, fam=fam())
            yield dict(kind="concat", lens=lens, cell=cell, fam=fam())
            for w in ("cos", "log", "adaptor"):
                yield dict(kind="s2s_row", lens=lens, cell=cell, fam=fam(), wrapped=w)
            yield dict(kind="s2p_row", lens=lens, cell=cell, fam=fam(), wrapped="mean")
        L = lens[0][0]
        for cell in cells:
            if not eq:
                yield dict(kind="paa", lens=lens, cell=cell, fam=0, n_int=2)
                yield dict(kind="slope", lens=lens, cell=cell, fam=1, n_int=2)
                continue
            for k in range(1, L + 2):
                for f in (0, 1):
                    yield dict(kind="paa", lens=lens, cell=cell, fam=f, n_int=k)
                    yield dict(kind="slope", lens=lens, cell=cell, fam=f, n_int=k)
    # ---- longer series: every (length, number of intervals) pair up to 40 / 30 points for the
    # transformers whose frame arithmetic is fractional (2 instances, 1 column)
    for Lx in range(2, 41 if tier != "quick" else 31):
        for k in range(1, Lx + 1):
            for f in (0, 1):
                yield dict(kind="paa", lens=[[Lx], [Lx]], cell=cells[(Lx + k + seed) % 2],
                           fam=f, n_int=k)
                if k <= Lx // 2:
                    yield dict(kind="slope", lens=[[Lx], [Lx]], cell=cells[(Lx + k + seed) % 2],
                               fam=f, n_int=k)
    # ---- univariate panels: segmenters and interval features
    for lens in _eq_shapes(tier, cols=(1,)):
        L = lens[0][0]
        pairs = [(s, e) for s in range(0, L) for e in range(s + 1, L + 1)]
        for cell in cells:
            for k in range(1, L + 1):
                for xf in ("same", "other"):
                    yield dict(kind="iseg_int", lens=lens, cell=cell, fam=fam(), n_int=k, xf=xf)
            ivs = [[list(p)] for p in pairs]
            if L <= (5 if tier == "quick" else 6):
                ivs += [[list(p), list(q)] for p in pairs for q in pairs]
            for iv in ivs:
                yield dict(kind="iseg_arr", lens=lens, cell=cell, fam=fam(), intervals=iv)
            for w in range(1, L + 2):
                yield dict(kind="sliding", lens=lens, cell=cell, fam=fam(), window=w)
            for ni in list(range(1, L + 1)) + ["sqrt", "log", "random", 0.5]:
                for rs in range(RS[tier]):
                    for xf in ("same", "other"):
                        yield dict(kind="randseg", lens=lens, cell=cell, fam=fam(), n_int=ni,
                                   rs=rs, xf=xf)
            for ni in (1, 2, 3, "sqrt", "log"):
                for rs in range(RS[tier]):
                    for feats in ("default", "msl", "custom"):
                        yield dict(kind="rife", lens=lens, cell=cell, fam=1 if feats == "msl"
                                   else fam(), n_int=ni, rs=rs, feats=feats)
    for lens in _uneq_shapes(tier):
        if len(lens[0]) != 1:
            continue
        for cell in cells:
            yield dict(kind="iseg_int", lens=lens, cell=cell, fam=0, n_int=1, xf="same")
            yield dict(kind="sliding", lens=lens, cell=cell, fam=0, window=3)
            yield dict(kind="randseg", lens=lens, cell=cell, fam=0, n_int=1, rs=0, xf="same")
            yield dict(kind="rife", lens=lens, cell=cell, fam=0, n_int=1, rs=0, feats="default")
    # ---- plateau finder
    PL = 6 if tier == "quick" else 8
    for L in range(1, PL + 1):
        for p in range(2 ** L):
            pat = format(p, "0%db" % L)
            other = pat[::-1].translate(str.maketrans("01", "10"))
            for value in ("1", "nan", "inf"):
                for ml in (1, 2, 3):
                    for cell in cells:
                        yield dict(kind="plateau", pats=[pat, other] if p % 2 else [pat],
                                   value=value, min_length=ml, cell=cell)
    # ---- single series
    IL, IK = (6, 2) if tier == "quick" else (8, 3)
    methods = ["drift", "linear", "nearest", "constant", "mean", "median", "backfill", "bfill",
               "pad", "ffill", "random"]
    for L in range(1, IL + 1):
        for k in range(0, IK + 1):
            for pos in itertools.combinations(range(L), k):
                for m in methods:
                    for cont in ("series0", "series5", "frame"):
                        for f in (0, 1):
                            yield dict(kind="imputer", L=L, nan=list(pos), method=m, cont=cont,
                                       fam=f, ph="nan")
                if k:
                    for m in ("mean", "ffill", "linear", "constant"):
                        for ph in (-1, 0):
                            yield dict(kind="imputer", L=L, nan=list(pos), method=m,
                                       cont="series0", fam=0, ph=ph)
    for L in range(1, 9):
        for cont in ("series0", "series5", "frame"):
            for f in (0, 1):
                yield dict(kind="cos", L=L, cont=cont, fam=f)
                yield dict(kind="mean", L=L, cont=cont, fam=f)
    for L in range(3, 11 if tier == "quick" else 15):
        for lags in [None] + list(range(1, L)):
            for adj in (False, True):
                for fft in (False, True):
                    for f in (0, 1, 2):
                        yield dict(kind="acf", L=L, n_lags=lags, adjusted=adj, fft=fft, fam=f)
    for L in range(6, 13 if tier == "quick" else 17):
        for lags in [None] + list(range(1, L // 2 + 1)):
            for m in ("ywadjusted", "ywmle", "ols", "ldbiased"):
                for f in (1, 2):
                    yield dict(kind="pacf", L=L, n_lags=lags, method=m, fam=f)
    for L in range(2, 9):
        for w in ("minmax", "standard", "log1p"):
            for cont in ("series0", "series5", "frame"):
                for xf in ("same", "other"):
                    for f in (0, 1):
                        yield dict(kind="adaptor", L=L, wrapped=w, cont=cont, xf=xf, fam=f)
    for s in (1, 2, 3):
        for n in range(2, 9):
            for f in (0, 1):
                for axis in (0, 1):
                    yield dict(kind="uslope", s=s, n=n, axis=axis, fam=f)
                yield dict(kind="uslope", s=0, n=n, axis=0, fam=f)
                for order in (0, 1, 2, 3):
                    yield dict(kind="utrend", s=s, n=n, order=order, fam=f)


# ------------------------------------------------------------------------------ data
def _vals(lens, fam, ioff=0):
    return [[[ref.tag(i + ioff, c, t, fam) for t in range(L)] for c, L in enumerate(row)]
            for i, row in enumerate(lens)]


def _panel(vals, cell):
    if cell == "np3d":
        return np.array(vals, dtype=float)
    n = len(vals)
    data = {}
    for c in range(len(vals[0])):
        col = np.empty(n, dtype=object)
        for i in range(n):
            a = np.array(vals[i][c], dtype=float)
            col[i] = pd.Series(a) if cell == "series" else a
        data["c%d" % c] = pd.Series(col, index=pd.RangeIndex(n), dtype=object)
    return pd.DataFrame(data)


def _flat(x):
    if isinstance(x, (pd.Series, pd.DataFrame)):
        x = x.values
    a = np.asarray(x, dtype=float)
    return [float(v) for v in a.ravel()]


def _same(a, b, exact):
    if len(a) != len(b):
        return False
    if exact:
        return all((x == y) or (x != x and y != y) for x, y in zip(a, b))
    return close(a, b, rtol=1e-9, atol=1e-9)


def _check_cells(res, name, Xt, exp, exact=True, sub=""):
    """Xt: DataFrame whose cell (i, j) must hold the list exp[i][j] (scalars: 1-lists)."""
    if isinstance(Xt, np.ndarray) and Xt.ndim == 2:
        Xt = pd.DataFrame(Xt)  # tabular output for 3-D numpy input: container not judged
    if not isinstance(Xt, pd.DataFrame):
        res.violate(name + ":type", "output is not a DataFrame", observed=type(Xt).__name__)
        return False
    if Xt.shape[0] != len(exp):
        res.violate(name + ":rows", "not one output row per instance", expected=len(exp),
                    observed=Xt.shape[0])
        return False
    if Xt.shape[1] != len(exp[0]):
        res.violate(name + ":cols", "number of output columns", expected=len(exp[0]),
                    observed=Xt.shape[1])
        return False
    for i, row in enumerate(exp):
        for j, e in enumerate(row):
            o = call(_flat, Xt.iat[i, j])
            if not o.ok:
                res.violate(name + ":cell", "output cell is not numeric", observed=o.brief())
                return False
            got = o.value
            if len(got) != len(e):
                res.violate(name + sub + ":length", "output length of cell (%d,%d)" % (i, j),
                            expected=e, observed=got)
                return False
            if not _same(got, e, exact):
                key = "value"
                if exact:
                    gt = [ref.untag(v) for v in got]
                    et = [ref.untag(v) for v in e]
                    pairs = [(g, x) for g, x in zip(gt, et) if g is not None and x is not None]
                    if any(g[0] != x[0] for g, x in pairs):
                        key = "roworder"
                    elif any(g[1] != x[1] for g, x in pairs):
                        key = "colorder"
                res.violate("%s%s:%s" % (name, sub, key), "cell (%d,%d) differs from the "
                            "documented function" % (i, j), expected=e, observed=got)
                return False
    return True


def _raised(res, name, case, o, what="valid configuration raised", per_cell=True):
    cell = case.get("cell", "series")
    key = name + (":raises" if cell == "series" or not per_cell else ":%s-cells:raises" % cell)
    res.violate(key, what, expected="a result", observed=o.brief())


def _nt(res, case):
    res.nt(tuple(sorted((k, repr(v)) for k, v in case.items())))


# ------------------------------------------------------------------------------ panel checks
def _padder(case, res):
    from sktime.transformations.panel.padder import PaddingTransformer

    lens, fam = case["lens"], case["fam"]
    fill = float("nan") if case["fill"] == "nan" else case["fill"]
    v1 = _vals(lens, fam)
    if case["xf"] == "other":
        v2 = _vals([[max(2, l - 1) for l in row] for row in lens], fam, ioff=5)
    else:
        v2 = v1
    mx = max(l for row in lens for l in row)
    P = None if case["rel"] is None else mx + case["rel"]
    t = PaddingTransformer(pad_length=P, fill_value=fill)
    o = call(lambda: t.fit(_panel(v1, case["cell"])).transform(_panel(v2, case["cell"])))
    if P is not None and P < mx:
        res.outcome("padder:too-short:" + o.kind)
        return
    res.outcome("padder:%s:%s" % (case["cell"], o.kind))
    if not o.ok:
        return _raised(res, "padder", case, o)
    _nt(res, case)
    tgt = mx if P is None else P
    exp = [[ref.pad(c, tgt, float(fill)) for c in row] for row in v2]
    _check_cells(res, "padder", o.value, exp)


def _trunc(case, res):
    from sktime.transformations.panel.truncation import TruncationTransformer

    lens, fam, lo, up = case["lens"], case["fam"], case["lower"], case["upper"]
    v1 = _vals(lens, fam)
    v2 = _vals([[l + 1 for l in row] for row in lens], fam, ioff=5) \
        if case["xf"] == "other" else v1
    mn = min(l for row in lens for l in row)
    t = TruncationTransformer(lower=lo, upper=up)
    o = call(lambda: t.fit(_panel(v1, case["cell"])).transform(_panel(v2, case["cell"])))
    if lo is not None and up is None and lo > mn:
        res.outcome("trunc:beyond-shortest:" + o.kind)
        return
    res.outcome("trunc:%s:%s" % (case["cell"], o.kind))
    if not o.ok:
        return _raised(res, "trunc", case, o)
    _nt(res, case)
    lo_ = mn if lo is None else lo
    exp = [[ref.truncate(c, lo_, up) for c in row] for row in v2]
    _check_cells(res, "trunc", o.value, exp, sub=":range" if up is not None else "")


def _interp(case, res):
    from sktime.transformations.panel.interpolate import TSInterpolator

    v = _vals(case["lens"], case["fam"])
    X = _panel(v, case["cell"])
    o = call(lambda: TSInterpolator(case["length"]).fit(X).transform(X))
    res.outcome("interp:%s:%s" % (case["cell"], o.kind))
    if not o.ok:
        return _raised(res, "interp", case, o)
    _nt(res, case)
    exp = [[ref.interpolate(c, case["length"]) for c in row] for row in v]
    _check_cells(res, "interp", o.value, exp, exact=False)


def _deriv(case, res):
    from sktime.transformations.panel.summarize._extract import DerivativeSlopeTransformer

    v = _vals(case["lens"], case["fam"])
    X = _panel(v, case["cell"])
    o = call(lambda: DerivativeSlopeTransformer().fit(X).transform(X))
    if min(l for row in case["lens"] for l in row) < 3:
        res.outcome("deriv:too-short:" + o.kind)
        return
    res.outcome("deriv:%s:%s" % (case["cell"], o.kind))
    if not o.ok:
        return _raised(res, "deriv", case, o)
    _nt(res, case)
    exp = [[ref.ddtw_derivative(c) for c in row] for row in v]
    _check_cells(res, "deriv", o.value, exp, exact=False)


def _rect(case, res, name, make, expect, exact=True, sub="", per_cell=True, shape_ok=None):
    """shared driver of the transformers that need a rectangular panel"""
    v = _vals(case["lens"], case["fam"])
    eq = (shape_ok or _is_equal)(case["lens"])
    o = call(lambda: make(_panel(v, case["cell"])))
    if not eq:
        res.outcome(name + ":unequal:" + o.kind)
        return None
    res.outcome("%s:%s:%s" % (name, case["cell"], o.kind))
    if not o.ok:
        _raised(res, name, case, o, per_cell=per_cell)
        return None
    _nt(res, case)
    _check_cells(res, name, o.value, expect(v), exact=exact, sub=sub)
    return o.value


def _tabular(case, res):
    from sktime.transformations.panel.reduce import Tabularizer

    _rect(case, res, "tabularizer", lambda X: Tabularizer().fit(X).transform(X),
          lambda v: [[[x] for x in ref.tabular_row(row)] for row in v], shape_ok=_col_equal)


def _concat(case, res):
    from sktime.transformations.panel.compose import ColumnConcatenator

    _rect(case, res, "concat", lambda X: ColumnConcatenator().fit(X).transform(X),
          lambda v: [[ref.tabular_row(row)] for row in v], shape_ok=_col_equal)


def _s2s_row(case, res):
    from sklearn.preprocessing import MinMaxScaler
    from sktime.transformations.panel.compose import SeriesToSeriesRowTransformer
    from sktime.transformations.series.adapt import TabularToSeriesAdaptor
    from sktime.transformations.series.boxcox import LogTransformer
    from sktime.transformations.series.cos import CosineTransformer

    w = case["wrapped"]
    if w == "cos":
        inner, f = CosineTransformer(), lambda c: [math.cos(x) for x in c]
    elif w == "log":
        inner, f = LogTransformer(), lambda c: [math.log(x) for x in c]
    else:
        inner, f = TabularToSeriesAdaptor(MinMaxScaler()), lambda c: ref.minmax(c, c)
    name = "s2s-row:" + w
    Xt = _rect(case, res, name,
               lambda X: SeriesToSeriesRowTransformer(inner).fit(X).transform(X),
               lambda v: [[f(c) for c in row] for row in v], exact=False, per_cell=False)
    if Xt is not None and isinstance(Xt, pd.DataFrame) and len(Xt) > 1:
        res.outcome("s2s-row:index:" + ("unique" if Xt.index.is_unique else "duplicated"))


def _s2p_row(case, res):
    from sktime.transformations.panel.compose import SeriesToPrimitivesRowTransformer
    from sktime.transformations.series.summarize import MeanTransformer

    _rect(case, res, "s2p-row:mean",
          lambda X: SeriesToPrimitivesRowTransformer(MeanTransformer()).fit(X).transform(X),
          lambda v: [[[ref.mean(c)] for c in row] for row in v], exact=False)


def _paa(case, res):
    from sktime.transformations.panel.dictionary_based._paa import PAA

    k, Ls = case["n_int"], case["lens"][0]
    if _col_equal(case["lens"]) and k > min(Ls):
        v = _vals(case["lens"], case["fam"])
        X = _panel(v, case["cell"])
        o = call(lambda: PAA(k).fit(X).transform(X))
        res.outcome("paa:too-many:" + o.kind)
        return
    _rect(case, res, "paa", lambda X: PAA(k).fit(X).transform(X),
          lambda v: [[ref.paa(c, k) for c in row] for row in v], exact=False,
          sub=":fractional" if any(L % k for L in Ls) else ":integral", shape_ok=_col_equal)


def _slope(case, res):
    from sktime.transformations.panel.slope import SlopeTransformer

    k = case["n_int"]
    v = _vals(case["lens"], case["fam"])
    X = _panel(v, case["cell"])
    o = call(lambda: SlopeTransformer(k).fit(X).transform(X))
    if not _col_equal(case["lens"]):
        res.outcome("slope:unequal:" + o.kind)
        return
    if k > min(case["lens"][0]):
        res.outcome("slope:too-many:" + o.kind)
        return
    res.outcome("slope:%s:%s" % (case["cell"], o.kind))
    if not o.ok:
        return _raised(res, "slope", case, o)
    _nt(res, case)
    exp = [[[ref.tls_slope(c[a:b]) for a, b in ref.approx_equal_segments(len(c), k)]
            for c in row] for row in v]
    # undefined slopes (None) accept whatever was returned
    Xt = o.value
    if isinstance(Xt, pd.DataFrame) and Xt.shape == (len(v), len(v[0])):
        for i, row in enumerate(exp):
            for j, e in enumerate(row):
                g = call(_flat, Xt.iat[i, j])
                if g.ok and len(g.value) == len(e):
                    row[j] = [gv if ev is None else ev for gv, ev in zip(g.value, e)]
                else:
                    row[j] = [0.0 if ev is None else ev for ev in e]
    _check_cells(res, "slope", Xt, exp, exact=False)


# ------------------------------------------------------------------------------ segmenters
def _uni(case, ioff=0):
    v = _vals(case["lens"], case["fam"], ioff)
    return v, _panel(v, case["cell"])


def _iseg_int(case, res):
    from sktime.transformations.panel.segment import IntervalSegmenter

    k = case["n_int"]
    v1, X1 = _uni(case)
    v2, X2 = _uni(case, 5) if case["xf"] == "other" else (v1, X1)
    t = IntervalSegmenter(k)
    f = call(lambda: t.fit(X1))
    if not _is_equal(case["lens"]):
        res.outcome("intervalseg:int:unequal:" + f.kind)
        return
    L = case["lens"][0][0]
    if not f.ok:
        res.outcome("intervalseg:int:rejected:%s:%s" % (f.kind, "k<=L//2" if k <= L // 2
                                                        else "k>L//2"))
        if k <= L // 2 and not f.is_a(ValueError):
            _raised(res, "intervalseg:int", case, f)
        return
    o = call(lambda: t.transform(X2))
    res.outcome("intervalseg:int:%s:%s" % (case["cell"], o.kind))
    if not o.ok:
        return _raised(res, "intervalseg:int", case, o)
    _nt(res, case)
    # black-box reference (independent of how intervals_ is represented): k consecutive
    # intervals that together hold every time point exactly once, in order, with sizes that
    # differ by at most one (larger ones first, as for an equal split)
    base, extra = divmod(L, k)
    sizes = [base + (1 if j < extra else 0) for j in range(k)]
    bounds = [sum(sizes[:j]) for j in range(k + 1)]
    exp = [[row[0][bounds[j]:bounds[j + 1]] for j in range(k)] for row in v2]
    got = o.value
    if got.shape[1] != k:
        res.violate("intervalseg:int:count", "number of output intervals", expected=k,
                    observed=int(got.shape[1]))
        return
    if any(len(c) != len(e) for c, e in zip(list(got.iloc[0]), exp[0])):
        res.violate("intervalseg:int:length", "intervals do not partition the series into "
                    "equal parts (every time point exactly once)",
                    expected=[len(e) for e in exp[0]],
                    observed=[len(c) for c in got.iloc[0]])
        return
    _check_cells(res, "intervalseg:int", got, exp)


def _iseg_arr(case, res):
    from sktime.transformations.panel.segment import IntervalSegmenter

    iv = case["intervals"]
    v, X = _uni(case)
    o = call(lambda: IntervalSegmenter(np.array(iv, dtype=int)).fit(X).transform(X))
    res.outcome("intervalseg:array:%s:%s" % (case["cell"], o.kind))
    if not o.ok:
        return _raised(res, "intervalseg:array", case, o)
    _nt(res, case)
    exp = [[row[0][s:e] for s, e in iv] for row in v]
    _check_cells(res, "intervalseg:array", o.value, exp)


def _n_expected(ni, L):
    if isinstance(ni, bool):
        return None
    if isinstance(ni, int):
        return ni
    if ni == "sqrt":
        return max(1, int(math.sqrt(L)))
    if ni == "log":
        return max(1, int(math.log(L)))
    if isinstance(ni, float):
        return max(1, int(ni * L))
    return None


def _fitted_intervals(res, name, t, ni, L):
    fi = call(lambda: [[int(s), int(e)] for s, e in np.asarray(t.intervals_)])
    if not fi.ok:
        res.violate(name + ":intervals_", "fitted intervals_ are not (start, end) rows",
                    observed=fi.brief())
        return None
    ivs = fi.value
    ne = _n_expected(ni, L)
    if (ne is not None and len(ivs) != ne) or len(ivs) < 1:
        res.violate(name + ":count", "number of fitted intervals", expected=ne,
                    observed=len(ivs))
        return None
    if any(not (0 <= s < e <= L) for s, e in ivs):
        res.violate(name + ":bounds", "fitted interval outside the series or empty",
                    expected="0 <= start < end <= %d" % L, observed=ivs)
        return None
    return ivs


def _randseg(case, res):
    from sktime.transformations.panel.segment import RandomIntervalSegmenter

    ni, rs = case["n_int"], case["rs"]
    v1, X1 = _uni(case)
    v2, X2 = _uni(case, 5) if case["xf"] == "other" else (v1, X1)
    t = RandomIntervalSegmenter(n_intervals=ni, random_state=rs)
    f = call(lambda: t.fit(X1))
    if not _is_equal(case["lens"]):
        res.outcome("randseg:unequal:" + f.kind)
        return
    L = case["lens"][0][0]
    res.outcome("randseg:fit:%s:%s" % (ni if isinstance(ni, str) else type(ni).__name__, f.kind))
    if not f.ok:
        return _raised(res, "randseg", case, f)
    ivs = _fitted_intervals(res, "randseg", t, ni, L)
    if ivs is None:
        return
    t2 = RandomIntervalSegmenter(n_intervals=ni, random_state=rs).fit(X1)
    if [[int(s), int(e)] for s, e in np.asarray(t2.intervals_)] != ivs:
        res.violate("randseg:reproducible", "same int random_state, different intervals",
                    expected=ivs, observed=np.asarray(t2.intervals_).tolist())
    o = call(lambda: t.transform(X2))
    if not o.ok:
        return _raised(res, "randseg", case, o)
    _nt(res, case)
    exp = [[row[0][s:e] for s, e in ivs] for row in v2]
    _check_cells(res, "randseg", o.value, exp)


def value_range(x):
    return x.max() - x.min()


def first(x):
    return x[0]


def _rife(case, res):
    from sktime.transformations.panel.summarize._extract import RandomIntervalFeatureExtractor
    from sktime.utils.slope_and_trend import _slope as repo_slope

    ni, rs = case["n_int"], case["rs"]
    v, X = _uni(case)
    feats = None if case["feats"] == "default" else [np.mean, np.std, repo_slope]
    fnames = ["mean"] if feats is None else ["mean", "std", "_slope"]
    refs = {"mean": ref.mean, "std": ref.std, "_slope": ref.ls_slope,
            "value_range": lambda xs: max(xs) - min(xs), "first": lambda xs: xs[0]}
    if case["feats"] == "custom":
        # user-written single-array feature functions (no `axis` argument)
        feats = [value_range, first, np.mean]
        fnames = ["value_range", "first", "mean"]
    t = RandomIntervalFeatureExtractor(n_intervals=ni, random_state=rs, features=feats)
    f = call(lambda: t.fit(X))
    if not _is_equal(case["lens"]):
        res.outcome("rife:unequal:" + f.kind)
        return
    L = case["lens"][0][0]
    if isinstance(ni, int) and ni > L:
        res.outcome("rife:too-many:" + f.kind)
        return
    res.outcome("rife:fit:" + f.kind)
    if not f.ok:
        return _raised(res, "rife", case, f)
    ivs = _fitted_intervals(res, "rife", t, ni, L)
    if ivs is None:
        return
    o = call(lambda: t.transform(X))
    if not o.ok:
        return _raised(res, "rife", case, o)
    _nt(res, case)
    Xt = o.value
    if not isinstance(Xt, pd.DataFrame) or Xt.shape[0] != len(v):
        res.violate("rife:rows", "not one output row per instance", expected=len(v),
                    observed=getattr(Xt, "shape", None))
        return
    want = sorted("%d_%d_%s" % (s, e, fn) for fn in fnames for s, e in ivs)
    cols = [str(c) for c in Xt.columns]
    if sorted(cols) != want:
        res.violate("rife:cols", "columns are not one per (fitted interval, feature)",
                    expected=want, observed=cols)
        return
    for j, name in enumerate(cols):
        s, e, fn = name.split("_", 2)
        s, e = int(s), int(e)
        exp = [refs[fn](row[0][s:e]) for row in v]
        got = [float(x) for x in Xt.iloc[:, j]]
        if not close(got, exp, rtol=1e-9, atol=1e-9):
            res.violate("rife:%s:value" % fn.strip("_").replace("value_range", "custom"), "feature of interval [%d,%d) differs" %
                        (s, e), expected=exp, observed=got)
            return


def _sliding(case, res):
    from sktime.transformations.panel.segment import SlidingWindowSegmenter

    w = case["window"]
    _rect(case, res, "sliding", lambda X: SlidingWindowSegmenter(w).fit(X).transform(X),
          lambda v: [ref.sliding_windows(row[0], w) for row in v],
          sub=":even" if w % 2 == 0 else ":odd")


def _plateau(case, res):
    from sktime.transformations.panel.summarize._extract import PlateauFinder

    value = {"1": 1.0, "nan": float("nan"), "inf": float("inf")}[case["value"]]
    vals = [[value if ch == "1" else ref.tag(i, 0, t) for t, ch in enumerate(p)]
            for i, p in enumerate(case["pats"])]
    X = _panel([[r] for r in vals], case["cell"])
    ml = case["min_length"]
    o = call(lambda: PlateauFinder(value=value, min_length=ml).fit(X).transform(X))
    res.outcome("plateau:%s:%s" % (case["value"], o.kind))
    if not o.ok:
        return _raised(res, "plateau", case, o)
    _nt(res, case)
    exp = []
    for r in vals:
        s, l = ref.plateaus(r, value, ml)
        exp.append([[float(x) for x in s], [float(x) for x in l]])
    res.outcome("plateau:found:%d" % min(3, max(len(e[0]) for e in exp)))
    _check_cells(res, "plateau", o.value, exp, exact=False)


# ------------------------------------------------------------------------------ single series
def _container(cols, cont):
    """cols: list of value lists (1 for a Series, 2 for a frame)"""
    n = len(cols[0])
    idx = pd.RangeIndex(5, 5 + n) if cont == "series5" else pd.RangeIndex(n)
    if cont == "frame":
        return pd.DataFrame({"a": np.array(cols[0], dtype=float),
                             "b": np.array(cols[1], dtype=float)}, index=idx)
    return pd.Series(np.array(cols[0], dtype=float), index=idx)


def _columns_of(out, k):
    """observed output as list of k value lists; None if the shape is off"""
    if k == 1:
        if isinstance(out, pd.Series):
            return [[float(x) for x in out.values]]
        return None
    if isinstance(out, pd.DataFrame) and out.shape[1] == k:
        return [[float(x) for x in out.iloc[:, j].values] for j in range(k)]
    return None


def _series_vals(L, fam, c=0, i=0):
    if fam == 2:
        return [10.0 + ((t * 7 + 3 * c + i) % 5) + 0.25 * t for t in range(L)]
    return [ref.tag(i, c, t, fam) for t in range(L)]


def _imputer(case, res):
    from sktime.transformations.series.impute import Imputer

    L, m, cont, ph = case["L"], case["method"], case["cont"], case["ph"]
    hole = float("nan") if ph == "nan" else float(ph)
    pos = set(case["nan"])
    cols = [[hole if t in pos else x for t, x in enumerate(_series_vals(L, case["fam"], 0))]]
    if cont == "frame":
        mirror = {L - 1 - p for p in pos}
        cols.append([hole if t in mirror else x
                     for t, x in enumerate(_series_vals(L, case["fam"], 1))])
    Z = _container(cols, cont)
    kw = dict(value=-3.0) if m == "constant" else {}
    if ph != "nan":
        kw["missing_values"] = ph
    o = call(lambda: Imputer(method=m, random_state=0, **kw).fit(Z).transform(Z.copy()))
    nanned = [[float("nan") if t in (pos if j == 0 else {L - 1 - p for p in pos}) else x
               for t, x in enumerate(col)] for j, col in enumerate(cols)]
    cands = [ref.impute_candidates(col, m, -3.0) for col in nanned]
    if any(c is None for c in cands):
        res.outcome("imputer:all-missing:" + o.kind)
        return
    name = "imputer:%s" % m if ph == "nan" else "imputer:placeholder=%s" % ph
    res.outcome("imputer:%s:%s:%d-missing" % (m, o.kind, len(pos)))
    if not o.ok:
        res.violate(name + ":raises", "imputation raised", observed=o.brief())
        return
    _nt(res, case)
    got = _columns_of(o.value, len(cols))
    if got is None or any(len(g) != L for g in got):
        res.violate("imputer:shape", "output is not a series/frame of the input shape",
                    expected=(L, len(cols)), observed=getattr(o.value, "shape", None))
        return
    if list(o.value.index) != list(Z.index):
        res.violate("imputer:index", "time index changed", expected=list(Z.index),
                    observed=list(o.value.index))
    for j, (g, cd) in enumerate(zip(got, cands)):
        ov = [x for x in nanned[j] if x == x]
        for t in range(L):
            if cd[t] == "range":
                ok = g[t] == g[t] and min(ov) <= g[t] <= max(ov)
                e = "within [%r, %r]" % (min(ov), max(ov))
            else:
                ok = any(abs(g[t] - c) <= 1e-9 * max(1.0, abs(c)) for c in cd[t])
                e = cd[t]
            if not ok:
                res.violate(name + ":value", "position %d of column %d: not the documented "
                            "imputation" % (t, j), expected=dict(input=nanned[j], accepted=e),
                            observed=g)
                return


def _cos(case, res):
    from sktime.transformations.series.cos import CosineTransformer

    L, cont = case["L"], case["cont"]
    cols = [_series_vals(L, case["fam"], c) for c in range(2 if cont == "frame" else 1)]
    Z = _container(cols, cont)
    o = call(lambda: CosineTransformer().fit(Z).transform(Z))
    res.outcome("cos:" + o.kind)
    if not o.ok:
        res.violate("cos:raises", "transform raised", observed=o.brief())
        return
    _nt(res, case)
    got = _columns_of(o.value, len(cols))
    exp = [[math.cos(x) for x in c] for c in cols]
    if got is None or not all(_same(g, e, False) for g, e in zip(got, exp)):
        res.violate("cos:value", "not the cosine of every value", expected=exp,
                    observed=got if got is not None else repr(o.value)[:200])
    elif list(o.value.index) != list(Z.index):
        res.violate("cos:index", "time index changed", expected=list(Z.index),
                    observed=list(o.value.index))


def _mean(case, res):
    from sktime.transformations.series.summarize import MeanTransformer

    L, cont = case["L"], case["cont"]
    cols = [_series_vals(L, case["fam"], c) for c in range(2 if cont == "frame" else 1)]
    Z = _container(cols, cont)
    o = call(lambda: MeanTransformer().fit(Z).transform(Z))
    res.outcome("mean:" + o.kind)
    if not o.ok:
        res.violate("mean:raises", "transform raised", observed=o.brief())
        return
    _nt(res, case)
    exp = [ref.mean(c) for c in cols]
    g = call(lambda: [float(x) for x in np.atleast_1d(np.asarray(o.value, dtype=float))])
    if not g.ok or not _same(g.value, exp, False):
        res.violate("mean:value", "not the mean of every column", expected=exp,
                    observed=g.value if g.ok else g.brief())


def _acf(case, res):
    from statsmodels.tsa.stattools import acf as sm_acf
    from sktime.transformations.series.acf import AutoCorrelationTransformer

    L, lags, adj, fft = case["L"], case["n_lags"], case["adjusted"], case["fft"]
    vals = _series_vals(L, case["fam"])
    Z = pd.Series(vals)
    o = call(lambda: AutoCorrelationTransformer(n_lags=lags, adjusted=adj, fft=fft)
             .fit(Z).transform(Z))
    r = call(lambda: sm_acf(np.array(vals), nlags=lags, adjusted=adj, fft=fft))
    res.outcome("acf:%s:%s" % (o.kind, r.kind))
    if not r.ok:
        return
    if not o.ok:
        res.violate("acf:raises", "transform raised where statsmodels.acf answers",
                    observed=o.brief())
        return
    _nt(res, case)
    got = _columns_of(o.value, 1)
    exp = [float(x) for x in r.value]
    if got is None or len(got[0]) != len(exp):
        res.violate("acf:length", "number of autocorrelation coefficients", expected=len(exp),
                    observed=None if got is None else len(got[0]))
        return
    if not close(got[0], exp, rtol=1e-9, atol=1e-10):
        res.violate("acf:value", "differs from statsmodels.acf", expected=exp, observed=got[0])
        return
    k = len(exp) - 1
    if k <= L - 1:
        mine = ref.acf(vals, k, adj)
        if (lags is not None and len(got[0]) != lags + 1) or \
                not close(got[0], mine, rtol=1e-7, atol=1e-9):
            res.violate("acf:definition", "differs from the textbook sample autocorrelation "
                        "at lags 0..n_lags", expected=mine, observed=got[0])


def _pacf(case, res):
    from statsmodels.tsa.stattools import pacf as sm_pacf
    from sktime.transformations.series.acf import PartialAutoCorrelationTransformer

    L, lags, m = case["L"], case["n_lags"], case["method"]
    vals = _series_vals(L, case["fam"])
    Z = pd.Series(vals)
    o = call(lambda: PartialAutoCorrelationTransformer(n_lags=lags, method=m).fit(Z).transform(Z))
    r = call(lambda: sm_pacf(np.array(vals), nlags=lags, method=m))
    res.outcome("pacf:%s:%s" % (o.kind, r.kind))
    if not r.ok:
        return
    if not o.ok:
        res.violate("pacf:raises", "transform raised where statsmodels.pacf answers",
                    observed=o.brief())
        return
    _nt(res, case)
    got = _columns_of(o.value, 1)
    exp = [float(x) for x in r.value]
    if got is None or len(got[0]) != len(exp) or (lags is not None and len(exp) != lags + 1):
        res.violate("pacf:length", "number of partial autocorrelations", expected=len(exp),
                    observed=None if got is None else len(got[0]))
    elif not close(got[0], exp, rtol=1e-9, atol=1e-10):
        res.violate("pacf:value", "differs from statsmodels.pacf", expected=exp, observed=got[0])


def _adaptor(case, res):
    from sklearn.preprocessing import FunctionTransformer, MinMaxScaler, StandardScaler
    from sktime.transformations.series.adapt import TabularToSeriesAdaptor

    L, w, cont = case["L"], case["wrapped"], case["cont"]
    k = 2 if cont == "frame" else 1
    fit_cols = [_series_vals(L, case["fam"], c) for c in range(k)]
    if case["xf"] == "other":
        tr_cols = [_series_vals(L + 1, 1 - case["fam"], c, i=1) for c in range(k)]
    else:
        tr_cols = fit_cols
    Zf, Zt = _container(fit_cols, cont), _container(tr_cols, cont)
    if w == "minmax":
        inner, f = MinMaxScaler(), ref.minmax
    elif w == "standard":
        inner, f = StandardScaler(), ref.standardize
    else:
        inner, f = FunctionTransformer(np.log1p), lambda a, b: [math.log1p(x) for x in b]
    o = call(lambda: TabularToSeriesAdaptor(inner).fit(Zf).transform(Zt))
    res.outcome("adaptor:%s:%s" % (w, o.kind))
    if not o.ok:
        res.violate("adaptor:raises", "fit/transform raised", observed=o.brief())
        return
    _nt(res, case)
    exp = [f(a, b) for a, b in zip(fit_cols, tr_cols)]
    got = _columns_of(o.value, k)
    if got is None or any(len(g) != len(e) for g, e in zip(got, exp)):
        res.violate("adaptor:shape", "output does not have the shape of the input",
                    expected=(len(exp[0]), k), observed=getattr(o.value, "shape", None))
    elif not all(_same(g, e, False) for g, e in zip(got, exp)):
        res.violate("adaptor:%s:value" % w, "not the column-wise wrapped transformation "
                    "(fitted on the fit series)", expected=exp, observed=got)
    elif list(o.value.index) != list(Zt.index):
        res.violate("adaptor:index", "time index changed", expected=list(Zt.index),
                    observed=list(o.value.index))


def _uslope(case, res):
    from sktime.utils.slope_and_trend import _slope as repo_slope

    s, n, axis = case["s"], case["n"], case["axis"]
    if s == 0:
        vals = _series_vals(n, 1 + case["fam"])
        o = call(lambda: repo_slope(np.array(vals)))
        exp = [ref.ls_slope(vals)]
    else:
        rows = [_series_vals(n, 1 + case["fam"], c=0, i=i) for i in range(s)]
        A = np.array(rows)
        if axis == 0:
            A = A.T
        o = call(lambda: repo_slope(A.copy(), axis=axis))
        exp = [ref.ls_slope(r) for r in rows]
    res.outcome("uslope:" + o.kind)
    if not o.ok:
        res.violate("uslope:raises", "_slope raised", observed=o.brief())
        return
    _nt(res, case)
    g = call(_flat, o.value)
    if not g.ok or not _same(g.value, exp, False):
        res.violate("uslope:value", "not the least-squares slope of every series", expected=exp,
                    observed=g.value if g.ok else g.brief())


def _utrend(case, res):
    from sktime.utils.slope_and_trend import _fit_trend

    s, n, order = case["s"], case["n"], case["order"]
    rows = [_series_vals(n, 1 + case["fam"], c=0, i=i) for i in range(s)]
    if order >= n:
        return
    o = call(lambda: _fit_trend(np.array(rows), order=order))
    res.outcome("utrend:%d:%s" % (order, o.kind))
    if not o.ok:
        res.violate("utrend:raises", "_fit_trend raised", observed=o.brief())
        return
    _nt(res, case)
    co = np.asarray(o.value, dtype=float)
    if co.shape != (s, order + 1):
        res.violate("utrend:shape", "coefficients are not [n_samples, order+1]",
                    expected=(s, order + 1), observed=co.shape)
        return
    for i, r in enumerate(rows):
        fitted = [math.fsum(co[i, j] * float(t) ** (order - j) for j in range(order + 1))
                  for t in range(n)]
        e = ref.polyfit(r, order)
        if e is None:
            continue
        if not close(fitted, e[0], rtol=1e-6, atol=1e-6):
            res.violate("utrend:value", "coefficients do not give the least-squares polynomial",
                        expected=e[0], observed=fitted)
            return


DISPATCH = dict(padder=_padder, trunc=_trunc, interp=_interp, deriv=_deriv, tabular=_tabular,
                concat=_concat, s2s_row=_s2s_row, s2p_row=_s2p_row, paa=_paa, slope=_slope,
                iseg_int=_iseg_int, iseg_arr=_iseg_arr, randseg=_randseg, rife=_rife,
                sliding=_sliding, plateau=_plateau, imputer=_imputer, cos=_cos, mean=_mean,
                acf=_acf, pacf=_pacf, adaptor=_adaptor, uslope=_uslope, utrend=_utrend)


_EMITTED = {}  # per worker process: violation key -> how often it was reported
_PER_KEY = 3    # the runner keeps 200 violations per worker; one wide-spread defect (e.g. every
#                 array-cell panel) must not crowd out the other keys.  Every case is still run
#                 and judged; only repeated reports of the same key are dropped.


def run_case(case):
    import warnings

    warnings.filterwarnings("ignore")
    res = Result()
    DISPATCH[case["kind"]](case, res)
    if res.violations:
        keep = []
        for v in res.violations:
            _EMITTED[v["key"]] = _EMITTED.get(v["key"], 0) + 1
            if _EMITTED[v["key"]] <= _PER_KEY:
                keep.append(v)
        res.violations = keep
    return res
