"""C11 - elementary forecasters compute the textbook forecast (E1)."""
import itertools
import math

import numpy as np
import pandas as pd

from ..core import Result, call, close, subsets

ID = "C11"
LEVEL = "exploration"
ANCHORS = [
    "sktime/forecasting/naive.py",
    "sktime/forecasting/trend.py",
    "sktime/forecasting/base/_sktime.py",
    "sktime/forecasting/base/adapters/_statsmodels.py",
    "sktime/forecasting/exp_smoothing.py",
    "sktime/forecasting/ets.py",
    "sktime/forecasting/theta.py",
]
RULE = (
    "NaiveForecaster: full product n x strategy x sp x window_length (None and 1..n) x horizons "
    "(every subset of {1..2sp+1} with <=3 steps, every single in-sample step whose full window "
    "exists, mixed in/out pairs) x NaN pattern (mean: each of the last 4 positions; drift: every single "
    "position and one pair strictly inside the window). PolynomialTrendForecaster: degree x "
    "intercept x n x in/out horizons. statsmodels adapters: option grids vs direct statsmodels "
    "calls. Index start in {0,5} rotated by case index+seed; value family by seed. non-trivial = "
    "fit accepted and forecast compared; distinct by full configuration."
)
ASSUMPTIONS = [
    "value alphabet: tagged quadratic/seasonal series; nothing about ill-conditioned data",
    "in-sample steps only where the full window exists (clipped windows are undocumented)",
    "Theta: oracle is the composition of its documented parts (multiplicative deseasonalisation "
    "via statsmodels seasonal_decompose, statsmodels SES, documented drift), not R's thetaf",
]


def _series(n, fam, start):
    t = np.arange(n, dtype=float)
    if fam == 0:
        v = 10.0 + 3.0 * t + 0.25 * t * t + np.where(t % 3 == 1, 2.0, 0.0)
    elif fam == 1:
        v = 50.0 - 1.5 * t + 0.5 * ((t * 7) % 5)
    else:
        v = 5.0 + ((t * 13) % 11) + 0.125 * t
    return pd.Series(v, index=pd.RangeIndex(start, start + n))


def gen_cases(tier, seed):
    N = 11 if tier == "quick" else 14
    SP = 3 if tier == "quick" else 4
    i = 0
    for n in range(3, N + 1):
        for strat in ("last", "mean", "drift"):
            for sp in range(1, SP + 1):
                if strat == "drift" and sp > 1:
                    continue
                Ws = [None] + list(range(1, n + 1))
                if strat == "last":
                    Ws = [None]
                for W in Ws:
                    hs = list(subsets(range(1, 2 * sp + 2), max_size=3 if tier != "quick" or sp < 3 else 2))
                    hs += [[h] for h in range(-n + 1, 1)]
                    hs += [[-1, 1], [0, 2], [-2, 0, 3]]
                    for fh in hs:
                        i += 1
                        start = 5 if (i + seed) % 2 else 0
                        yield dict(kind="naive", n=n, strategy=strat, sp=sp, W=W, fh=fh,
                                   start=start, fam=(seed + i // 7) % 3, nan=None)
                    if strat == "drift":
                        # missing values strictly inside the window (its end points are observed)
                        W_ = n if W is None else W
                        inner = [[q] for q in range(2, min(W_ - 1, 5) + 1)]
                        if W_ >= 4:
                            inner.append([2, 3])
                        for nanpos in inner:
                            for fh in ([1, 3], [2], [-1, 1]):
                                i += 1
                                yield dict(kind="naive", n=n, strategy=strat, sp=sp, W=W, fh=fh,
                                           start=0, fam=(seed + i) % 3, nan=nanpos)
                    if strat == "mean":
                        for nanpos in range(1, min(n, 4) + 1):
                            i += 1
                            yield dict(kind="naive", n=n, strategy=strat, sp=sp, W=W,
                                       fh=[1, sp + 1], start=0, fam=seed % 3, nan=nanpos)
    for n in range(3, N + 1):
        for deg in (1, 2, 3):
            if n < deg + 2:
                continue
            for icpt in (True, False):
                for fh in [[1], [1, 2, 3], [2, 5], [0], [-n + 1], [-2, -1], [-1, 1], [-3, 0, 4]]:
                    if min(fh) < -n + 1:
                        continue
                    i += 1
                    yield dict(kind="trend", n=n, degree=deg, icpt=icpt, fh=fh,
                               start=5 if (i + seed) % 2 else 0, fam=(seed + i) % 3)
    # two live forecasters of the same kind, fitted in turn on different series: each must still
    # return the forecast of ITS OWN training series (no state shared through the class/module)
    for spec in (["naive", "last"], ["naive", "mean", 3], ["naive", "drift"], ["poly", 1, True],
                 ["poly", 2, True], ["poly", 2, False], ["poly", 3, True], ["es"], ["theta"]):
        for na, nb in ((9, 12), (12, 9), (10, 10)):
            for fh in ([1, 2], [-1, 1], [3]):
                if fh[0] < 0 and spec[0] in ("es", "theta"):
                    continue
                yield dict(kind="pair", spec=spec, na=na, nb=nb, fh=fh, fam=seed % 3)
    # statsmodels adapters
    ns = (12, 15) if tier == "quick" else (12, 14, 15, 17)
    fhs = [[1], [1, 2, 3], [2, 5]] if tier == "quick" else [[1], [1, 2, 3], [2, 5], [4], [1, 7]]
    for n in ns:
        for fh in fhs:
            for trend, damped in ((None, False), ("add", False), ("add", True), ("mul", False)):
                for seasonal, sp in ((None, None), ("add", 2), ("add", 3)):
                    if tier == "quick" and trend == "mul" and seasonal:
                        continue
                    yield dict(kind="es", n=n, fh=fh, trend=trend, damped=damped,
                               seasonal=seasonal, sp=sp, start=0, fam=seed % 2)
            # further documented options of the exponential smoothing adapter
            for opt in ("boxcox_true", "boxcox_false", "boxcox_half", "boxcox_log", "heuristic",
                        "known", "legacy"):
                for trend in (None, "add"):
                    yield dict(kind="es", n=n, fh=fh, trend=trend, damped=False, seasonal=None,
                               sp=None, start=0, fam=seed % 2, opt=opt)
            for error in ("add", "mul"):
                for trend in (None, "add"):
                    for seasonal, sp in ((None, 1), ("add", 3)):
                        yield dict(kind="ets", n=n, fh=fh, error=error, trend=trend,
                                   seasonal=seasonal, sp=sp, start=0, fam=seed % 2)
            # further documented options of the adapter that change the fitted model
            for opt in ("bounds", "damped", "heuristic", "known"):
                yield dict(kind="ets", n=n, fh=fh, error="add", trend="add", seasonal=None, sp=1,
                           start=0, fam=seed % 2, opt=opt)
            for sp, des in ((1, True), (3, True), (3, False), (2, True)):
                yield dict(kind="theta", n=n, fh=fh, sp=sp, des=des, start=0, fam=seed % 2)


# ------------------------------------------------------------------ reference models
def naive_ref_at(vals, c, h, strategy, sp, W_):
    """forecast for time c+h (h>=1) made from cutoff position c with window length W_;
    vals: python list of floats (may hold nan); returns float"""
    win_lo = c - W_ + 1
    if win_lo < 0:
        return None
    win = vals[win_lo:c + 1]
    if all(v != v for v in win):
        return float("nan")
    if strategy == "last":
        return vals[c + h - sp * math.ceil(h / sp)]
    if strategy == "mean":
        if sp == 1:
            xs = [v for v in win if v == v]
        else:
            xs = [vals[t] for t in range(win_lo, c + 1)
                  if (t - (c + h)) % sp == 0 and vals[t] == vals[t]]
        return math.fsum(xs) / len(xs) if xs else float("nan")
    # drift
    return win[-1] + h * (win[-1] - win[0]) / (W_ - 1)


def naive_W(strategy, sp, W, n):
    if strategy == "last":
        return 1 if sp == 1 else sp
    return n if W is None else W


def run_case(case):
    res = Result()
    k = case["kind"]
    if k == "naive":
        return _naive(case, res)
    if k == "trend":
        return _trend(case, res)
    if k == "pair":
        return _pair(case, res)
    return _sm(case, res)


def _pair_build(spec):
    from sktime.forecasting.exp_smoothing import ExponentialSmoothing
    from sktime.forecasting.naive import NaiveForecaster
    from sktime.forecasting.theta import ThetaForecaster
    from sktime.forecasting.trend import PolynomialTrendForecaster

    if spec[0] == "naive":
        return NaiveForecaster(strategy=spec[1], sp=spec[2] if len(spec) > 2 else 1)
    if spec[0] == "poly":
        return PolynomialTrendForecaster(degree=spec[1], with_intercept=spec[2])
    if spec[0] == "es":
        return ExponentialSmoothing(trend="add")
    return ThetaForecaster(sp=1)


def _pair(case, res):
    spec, fh = case["spec"], case["fh"]
    ya = _series(case["na"], case["fam"], 0)
    yb = _series(case["nb"], (case["fam"] + 1) % 3, 4) * 1.5 + 7.0
    alone = call(lambda: _pair_build(spec).fit(ya.copy()).predict(fh))

    def interleaved():
        a, b = _pair_build(spec), _pair_build(spec)
        a.fit(ya.copy())
        b.fit(yb.copy())
        pa = a.predict(fh)
        b.predict([1])
        return pa, a.predict(fh)

    both = call(interleaved)
    tag = "pair:" + spec[0]
    res.outcome("%s:%s:%s" % (tag, alone.kind, both.kind))
    if not alone.ok:
        return res
    res.nt(("pair", str(spec), case["na"], case["nb"], tuple(fh)))
    if not both.ok:
        res.violate(tag + ":raises", "a second forecaster fitted on other data makes the first "
                    "one fail", observed=both.brief())
        return res
    for got in both.value:
        if list(got.index) != list(alone.value.index) or \
                not close(got.values, alone.value.values, rtol=1e-9):
            res.violate(tag + ":shared-state", "forecast changes when another forecaster of the "
                        "same kind is fitted on a different series in between",
                        expected=alone.value, observed=got)
            return res
    return res


def _naive(case, res):
    from sktime.forecasting.naive import NaiveForecaster

    n, strat, sp, W, fh = case["n"], case["strategy"], case["sp"], case["W"], case["fh"]
    y = _series(n, case["fam"], case["start"])
    if case["nan"] is not None:
        for q in (case["nan"] if isinstance(case["nan"], list) else [case["nan"]]):
            y.iloc[n - q] = np.nan
    vals = [float(v) for v in y.values]
    W_ = naive_W(strat, sp, W, n)
    valid = W_ <= n and not (strat == "mean" and sp > 1 and W is not None and W < sp) \
        and not (strat == "drift" and W_ < 2)
    f = NaiveForecaster(strategy=strat, sp=sp, window_length=W)
    o = call(lambda: f.fit(y.copy()))
    if not valid:
        res.outcome("naive:invalid:" + o.kind)
        return res  # rejection is C20's subject
    if not o.ok:
        res.violate("naive:fit", "valid configuration rejected", observed=o.brief())
        return res
    c = n - 1
    exp = []
    for h in fh:
        if h >= 1:
            e = naive_ref_at(vals, c, h, strat, sp, W_)
        else:
            # in-sample: one-step forecast from the cutoff one step before c+h
            e = naive_ref_at(vals, c + h - 1, 1, strat, sp, W_) if c + h - 1 >= 0 else None
        exp.append(e)
    if any(e is None for e in exp):
        res.outcome("naive:window-clipped")
        return res
    if strat == "drift" and (vals[c] != vals[c] or any(e != e for e in exp)):
        res.outcome("naive:drift:end-point-missing")
        return res  # documented rejection: an end point of a needed window is missing
    p = call(lambda: f.predict(fh))
    res.outcome("naive:%s:%s" % (strat, p.kind))
    if not p.ok:
        res.violate("naive:%s:predict" % strat, "predict raised", expected=exp,
                    observed=p.brief())
        return res
    res.nt((n, strat, sp, W, tuple(fh), str(case["nan"])))
    got = p.value
    lab = [case["start"] + c + h for h in fh]
    if list(got.index) != lab:
        res.violate("naive:index", "forecast index != cutoff + fh", expected=lab,
                    observed=list(got.index))
    elif not close(got.values, exp, rtol=1e-10):
        kind = "insample" if min(fh) <= 0 else "oos"
        res.violate("naive:%s:%s:value" % (strat, kind), "forecast differs from the textbook value",
                    expected=exp, observed=list(got.values))
    return res


def _trend(case, res):
    from sktime.forecasting.trend import PolynomialTrendForecaster

    n, deg, icpt, fh = case["n"], case["degree"], case["icpt"], case["fh"]
    y = _series(n, case["fam"], case["start"])
    t = np.arange(n, dtype=float)
    pw = list(range(0 if icpt else 1, deg + 1))
    A = np.stack([t ** p for p in pw], axis=1)
    coef, *_ = np.linalg.lstsq(A, y.values, rcond=None)
    tt = np.array([n - 1 + h for h in fh], dtype=float)
    exp = np.stack([tt ** p for p in pw], axis=1) @ coef
    f = PolynomialTrendForecaster(degree=deg, with_intercept=icpt)
    p = call(lambda: f.fit(y.copy()).predict(fh))
    res.outcome("trend:" + p.kind)
    if not p.ok:
        res.violate("trend:raises", "fit/predict raised", observed=p.brief())
        return res
    res.nt(("trend", n, deg, icpt, tuple(fh)))
    lab = [case["start"] + n - 1 + h for h in fh]
    if list(p.value.index) != lab:
        res.violate("trend:index", "forecast index != cutoff + fh", expected=lab,
                    observed=list(p.value.index))
    elif not close(p.value.values, exp, rtol=1e-7, atol=1e-7):
        res.violate("trend:value", "forecast differs from least-squares polynomial",
                    expected=list(exp), observed=list(p.value.values))
    return res


def _sm_series(n, fam):
    t = np.arange(n, dtype=float)
    v = 20.0 + 0.8 * t + np.array([3.0, -2.0, 1.0, 0.5, -1.5, 2.5])[(t.astype(int) * (fam + 1)) % 6]
    v = v + np.array([2.0, -1.0, -1.0])[t.astype(int) % 3]
    return pd.Series(v, index=pd.RangeIndex(n))


def _sm(case, res):
    import warnings

    warnings.filterwarnings("ignore")
    n, fh = case["n"], case["fh"]
    y = _sm_series(n, case["fam"])
    k = case["kind"]
    H = max(fh)
    if k == "es":
        from statsmodels.tsa.holtwinters import ExponentialSmoothing as SM
        from sktime.forecasting.exp_smoothing import ExponentialSmoothing

        known = dict(initialization_method="known", initial_level=21.0)
        if case["trend"]:
            known["initial_trend"] = 0.5
        extra = {"boxcox_true": dict(use_boxcox=True), "boxcox_false": dict(use_boxcox=False),
                 "boxcox_half": dict(use_boxcox=0.5), "boxcox_log": dict(use_boxcox="log"),
                 "heuristic": dict(initialization_method="heuristic"), "known": known,
                 "legacy": dict(initialization_method="legacy-heuristic")}.get(case.get("opt"), {})
        f = ExponentialSmoothing(trend=case["trend"], damped_trend=case["damped"],
                                 seasonal=case["seasonal"], sp=case["sp"], **extra)
        sm_kw = dict(initialization_method="estimated")
        sm_kw.update(extra)
        ref = call(lambda: SM(y.copy(), trend=case["trend"], damped_trend=case["damped"],
                              seasonal=case["seasonal"], seasonal_periods=case["sp"],
                              **sm_kw).fit().predict(n, n + H - 1))
    elif k == "ets":
        from statsmodels.tsa.exponential_smoothing.ets import ETSModel
        from sktime.forecasting.ets import AutoETS

        def mk_extra():  # fresh objects for each side (statsmodels writes into the bounds dict)
            return {"bounds": dict(bounds={"smoothing_level": (0.7, 0.9)}),
                    "damped": dict(damped_trend=True),
                    "heuristic": dict(initialization_method="heuristic"),
                    "known": dict(initialization_method="known", initial_level=21.0,
                                  initial_trend=0.5)}.get(case.get("opt"), {})

        extra = mk_extra()
        f = AutoETS(error=case["error"], trend=case["trend"], seasonal=case["seasonal"],
                    sp=case["sp"], auto=False, **extra)
        ref = call(lambda: ETSModel(y.copy(), error=case["error"], trend=case["trend"],
                                    seasonal=case["seasonal"], seasonal_periods=case["sp"],
                                    **mk_extra())
                   .fit(disp=False, maxiter=1000).predict(n, n + H - 1))
    else:
        from statsmodels.tsa.holtwinters import ExponentialSmoothing as SM
        from statsmodels.tsa.seasonal import seasonal_decompose
        from sktime.forecasting.theta import ThetaForecaster

        sp, des = case["sp"], case["des"]
        f = ThetaForecaster(sp=sp, deseasonalize=des)

        def theta_ref():
            yy = y.copy()
            if des:
                seas = seasonal_decompose(yy, model="multiplicative", period=sp, filt=None,
                                          two_sided=True, extrapolate_trend=0).seasonal.values[:sp]
                yy = yy / np.resize(seas, n)
            fit = SM(yy, initialization_method="estimated").fit()
            alpha = fit.params["smoothing_level"]
            slope = np.polyfit(np.arange(n), yy.values, 1)[0] / 2
            ses = fit.predict(n, n + H - 1)
            out = []
            for h in range(1, H + 1):
                if np.isclose(alpha, 0.0):
                    d = slope * h
                else:
                    d = slope * (h + (1 - (1 - alpha) ** n) / alpha)
                v = ses.iloc[h - 1] + d
                if des:
                    v = v * seas[(n + h - 1) % sp]
                out.append(v)
            return pd.Series(out, index=range(n, n + H))

        ref = call(theta_ref)
    p = call(lambda: f.fit(y.copy()).predict(fh))
    res.outcome("%s:%s:%s" % (k, p.kind, ref.kind))
    if not ref.ok:
        # the wrapped model itself refuses these options: adapter must not invent a forecast
        if p.ok:
            res.violate(k + ":accepts", "adapter forecasts where statsmodels raises",
                        expected=ref.brief(), observed=list(p.value.values))
        return res
    if not p.ok:
        res.violate(k + ":raises", "adapter raised where statsmodels forecasts",
                    observed=p.brief())
        return res
    res.nt((k, n, tuple(fh), tuple(sorted((a, str(b)) for a, b in case.items()))))
    exp = [float(ref.value.iloc[h - 1]) for h in fh]
    lab = [n - 1 + h for h in fh]
    if list(p.value.index) != lab:
        res.violate(k + ":index", "forecast index != cutoff + fh", expected=lab,
                    observed=list(p.value.index))
    elif not close(p.value.values, exp, rtol=1e-6, atol=1e-8):
        res.violate(k + ":value", "forecast differs from the wrapped statsmodels model",
                    expected=exp, observed=list(p.value.values))
    return res
