"""C06 - forecasting metrics equal their published definitions and obey their laws (E1)."""
import itertools
import math

import numpy as np
import pandas as pd

from ..core import Outcome, Result, _h
from ..refs import metrics as R

ID = "C06"
LEVEL = "exploration"
ANCHORS = [
    "sktime/performance_metrics/forecasting/_functions.py",
    "sktime/performance_metrics/forecasting/_classes.py",
    "sktime/performance_metrics/forecasting/__init__.py",
]
RULE = (
    "kind=fn: one case = (metric function, option set, horizon_weight, multioutput, L, n_outputs, "
    "alphabets[, part]); inside the case the FULL product of y_true x y_pred (x y_train set / "
    "x y_pred_benchmark) over the named alphabets is looped (V={-2,-1,0,.5,1,3}, V3={-1,0,2}, "
    "P2={-1,2}, B2={0,2}, TAG=3 position-tagged arrays). quick: univariate L=1,2 over V, L=3 over "
    "V3; 2 outputs L=2 (y_true V3^4, y_pred P2^4); scaled: y_train in V3^3 + P2^4 (2 outputs: "
    "4x4 column patterns incl. flat) x sp{1,2}; relative: benchmark over V / V3 / B2; "
    "horizon_weight {None, ones, (1,2,3), (3,1,1)}[:L]; multioutput {uniform_average, raw_values, "
    "(0.3,0.7), unnormalised (1,3)}; symmetric, square_root, asymmetric threshold {0,-2,0.5} (hit exactly by errors with e^2 != |e|) x 4 left/right pairs, "
    "relative_loss_function in 4 metrics. thorough: univariate L<=3 over V (L=3 with ones / "
    "(3,1,1) weights over V3) and L=4 over V3, 2 outputs over V3^4 x V3^4, all V3^3+V3^4 training "
    "series (2 outputs: V3^3 x 4 patterns), larger benchmark products. The scale law is "
    "evaluated on the cases with scale=true (all L=1, L=2 unweighted [thorough: + (1,2)]). "
    "kind=cls: every metric class x every constructor option set (and the default constructor) "
    "x small data; compared with its function. The seed only rotates the container kind "
    "(numpy / python lists / pandas in the cycle np,list,pd,np,list by case index + seed). non-trivial = an evaluation with "
    "y_pred != y_true whose value was compared with the reference; distinct by (case, input)."
)
ASSUMPTIONS = [
    "values from a 6-letter alphabet with zeros, sign changes and constants; L<=3 (4 thorough); "
    "<=2 output columns; nothing about NaN/inf, huge magnitudes or cancellation",
    "weighted medians are the LOWER weighted median (sklearn _weighted_percentile), also for "
    "all-ones weights, where it differs from the unweighted midpoint median: the docstrings only "
    "say 'forecast horizon weights', so this is accepted",
    "scaled errors and relative_loss with an averaging multioutput are the ratio of averaged "
    "numerator and averaged denominator, as the docstring EXAMPLES show (the Returns text "
    "'weighted average MASE of all output errors' would be the average of per-column ratios: "
    "docstring-internal inconsistency, not judged)",
    "eps clamps ('returns a large value instead of inf') are max(denominator, eps); zero relative "
    "errors enter geometric means as eps (docstring examples)",
    "scale-invariance law is required bit-exactly for factors 2, 0.5, 2^-20 and 2^20 (exact in "
    "binary floating point) and only where the in-sample naive error is not clamped (flat training series return "
    "the documented 'large value', which scales with the data)",
    "symmetric squared percentage errors without square_root are bounded by 4 (=2^2), all other "
    "symmetric percentage errors by 2",
    "classes are called as Cls(**opts)(y_true, y_pred[, y_train= / y_pred_benchmark=]) (keyword, "
    "then positional); horizon_weight / multioutput cannot be given to classes at all",
    "compat K13-K15 (sklearn 1.7 signatures of _check_reg_targets, _weighted_percentile, "
    "mean_squared_error(squared=)) are trusted",
]

EPS = R.EPS
ALPH = {
    "V": [-2.0, -1.0, 0.0, 0.5, 1.0, 3.0],
    "V3": [-1.0, 0.0, 2.0],
    "P2": [-1.0, 2.0],
    "B2": [0.0, 2.0],
}
PAT4 = [[-1.0, 0.0, 2.0], [2.0, 2.0, 2.0], [0.0, 2.0, 0.0], [2.0, -1.0, -1.0]]
CONT = ["np", "list", "pd", "np", "list"]  # cycle length coprime with the 16 workers
MO3 = ["uniform_average", "raw_values", [0.3, 0.7], [1.0, 3.0]]
HW = {
    1: [None, [1], [3]],
    2: [None, [1, 1], [1, 2], [3, 1]],
    3: [None, [1, 1, 1], [1, 2, 3], [3, 1, 1]],
    4: [None, [1, 1, 1, 1], [1, 2, 3, 4], [3, 1, 1, 1]],
}
LR = [["squared", "absolute"], ["absolute", "squared"], ["squared", "squared"],
      ["absolute", "absolute"]]
LOSSES = ["mean_absolute_error", "mean_squared_error", "median_absolute_error",
          "mean_absolute_percentage_error"]
CHUNK = 3000

CLASS_OF = {
    "mean_absolute_scaled_error": "MeanAbsoluteScaledError",
    "median_absolute_scaled_error": "MedianAbsoluteScaledError",
    "mean_squared_scaled_error": "MeanSquaredScaledError",
    "median_squared_scaled_error": "MedianSquaredScaledError",
    "mean_absolute_error": "MeanAbsoluteError",
    "mean_squared_error": "MeanSquaredError",
    "median_absolute_error": "MedianAbsoluteError",
    "median_squared_error": "MedianSquaredError",
    "mean_absolute_percentage_error": "MeanAbsolutePercentageError",
    "median_absolute_percentage_error": "MedianAbsolutePercentageError",
    "mean_squared_percentage_error": "MeanSquaredPercentageError",
    "median_squared_percentage_error": "MedianSquaredPercentageError",
    "mean_relative_absolute_error": "MeanRelativeAbsoluteError",
    "median_relative_absolute_error": "MedianRelativeAbsoluteError",
    "geometric_mean_relative_absolute_error": "GeometricMeanRelativeAbsoluteError",
    "geometric_mean_relative_squared_error": "GeometricMeanRelativeSquaredError",
    "mean_asymmetric_error": "MeanAsymmetricError",
    "relative_loss": "RelativeLoss",
}


def call(fn, *a, **k):
    """core.call without the formatted traceback (hot loop; raising classes are the norm here)"""
    try:
        return Outcome(True, fn(*a, **k))
    except Exception as e:  # noqa - exceptions are outcomes
        return Outcome(False, exc=e)


def family(name):
    if name in R.BASIC:
        return "basic"
    if name in R.PERCENTAGE:
        return "pct"
    if name in R.SCALED:
        return "scaled"
    if name in R.RELATIVE:
        return "rel"
    if name == "mean_asymmetric_error":
        return "asym"
    return "relloss"


def optsets(name):
    """every option set the function accepts beyond horizon_weight / multioutput"""
    fam = family(name)
    sq = [False, True] if "squared" in name else [None]
    out = []
    if fam == "basic" or fam == "rel":
        for s in sq:
            out.append({} if s is None else {"square_root": s})
    elif fam == "pct":
        for sym in (True, False):
            for s in sq:
                o = {"symmetric": sym}
                if s is not None:
                    o["square_root"] = s
                out.append(o)
    elif fam == "scaled":
        for sp in (1, 2):
            for s in sq:
                o = {"sp": sp}
                if s is not None:
                    o["square_root"] = s
                out.append(o)
    elif fam == "asym":
        # thresholds that some error y_true - y_pred hits exactly AND where squared != absolute
        # (with {-1,0,1} the boundary case e == threshold cannot tell `<` from `<=`)
        for thr in (0.0, -2.0, 0.5):
            for l, r in LR:
                out.append({"asymmetric_threshold": thr, "left_error_function": l,
                            "right_error_function": r})
    else:
        for lf in LOSSES:
            out.append({"relative_loss_function": lf})
    return out


# ------------------------------------------------------------------------- data spaces
def tagged(L, ncol):
    v = ALPH["V3"]
    out = []
    for k in range(3):
        a = [[v[(k + i * ncol + 2 * j + i * j) % 3] for j in range(ncol)] for i in range(L)]
        out.append(a if ncol > 1 else [r[0] for r in a])
    return out


def arrays(alph, L, ncol):
    if alph == "TAG":
        return tagged(L, ncol)
    out = []
    for t in itertools.product(ALPH[alph], repeat=L * ncol):
        if ncol == 1:
            out.append(list(t))
        else:
            out.append([list(t[i * ncol:(i + 1) * ncol]) for i in range(L)])
    return out


def trainset(name):
    v3 = ALPH["V3"]
    t3 = [list(t) for t in itertools.product(v3, repeat=3)]
    t4 = [list(t) for t in itertools.product(v3, repeat=4)]
    if name == "U_q":
        return t3 + [list(t) for t in itertools.product(ALPH["P2"], repeat=4)]
    if name == "U_t":
        return t3 + t4
    if name == "U_c":
        return [PAT4[0], PAT4[1], [0.0, 2.0, 0.0, -1.0]]
    if name == "M_c":
        cols0, cols1 = [PAT4[0], PAT4[3], PAT4[1]], PAT4[:2]
    elif name == "M_q":
        cols0, cols1 = PAT4, PAT4
    else:  # M_t
        cols0, cols1 = t3, PAT4
    return [[[a, b] for a, b in zip(c0, c1)] for c0 in cols0 for c1 in cols1]


def thirds(spec, L, ncol):
    if spec is None:
        return [None]
    if spec[0] == "train":
        return trainset(spec[1])
    return arrays(spec[1], L, ncol)


_LEN = {}


def _len(kind, spec, L, ncol):
    k = (kind, repr(spec), L, ncol)
    if k not in _LEN:
        _LEN[k] = len(thirds(spec, L, ncol) if kind == "third" else arrays(spec, L, ncol))
    return _LEN[k]


def _size(c):
    L, ncol = c["L"], c["ncol"]
    return (_len("a", c["a_true"], L, ncol) * _len("a", c["a_pred"], L, ncol)
            * _len("third", c["third"], L, ncol))


def _data(case):
    """-> iterator of (index, third, y_true, y_pred)"""
    if "only" in case:
        for i, (t, yt, yp) in enumerate(case["only"]):
            yield i, t, yt, yp
        return
    L, ncol = case["L"], case["ncol"]
    T = thirds(case["third"], L, ncol)
    YT = arrays(case["a_true"], L, ncol)
    YP = arrays(case["a_pred"], L, ncol)
    part = case.get("part")
    i = -1
    for t in T:
        for yt in YT:
            for yp in YP:
                i += 1
                if part is not None and i % part[1] != part[0]:
                    continue
                yield i, t, yt, yp


# ------------------------------------------------------------------------------- cases
def _emit(kind, name, opts, L, ncol, hw, mo, at, ap, third, scale=False, **extra):
    c = dict(kind=kind, metric=name, opts=opts, L=L, ncol=ncol, hw=hw, mo=mo, a_true=at,
             a_pred=ap, third=third, scale=scale)
    c.update(extra)
    n = _size(c)
    parts = max(1, -(-n // CHUNK))
    for p in range(parts):
        d = dict(c)
        if parts > 1:
            d["part"] = [p, parts]
        yield d


def _fn_cases(q):
    for name in R.BASIC + R.PERCENTAGE + ("mean_asymmetric_error",):
        for opts in optsets(name):
            uni = [(1, "V"), (2, "V"), (3, "V3")] if q else [(1, "V"), (2, "V"), (3, "V"),
                                                              (4, "V3")]
            for L, a in uni:
                for hw in HW[L]:
                    mos = ["uniform_average"]
                    if (q and L != 2) or (not q and not (L == 3)):
                        mos.append("raw_values")
                    al = a
                    if not q and L == 3 and hw in ([1, 1, 1], [3, 1, 1]):
                        al = "V3"  # thorough: full V^3 x V^3 only for None and (1,2,3)
                    for mo in mos:
                        yield from _emit("fn", name, opts, L, 1, hw, mo, al, al, None)
            for hw in ([None, [3, 1]] if q else HW[2]):
                for mo in MO3:
                    yield from _emit("fn", name, opts, 2, 2, hw, mo, "V3", "P2" if q else "V3",
                                     None)
    for name in R.SCALED:
        for opts in optsets(name):
            tr = ["train", "U_q" if q else "U_t"]
            for hw in ([None, [3]] if q else HW[1]):
                for mo in ("uniform_average", "raw_values"):
                    a = "V3" if q else "V"
                    yield from _emit("fn", name, opts, 1, 1, hw, mo, a, a, tr, scale=True)
            for hw in HW[2]:
                for mo in (["uniform_average"] if q else ["uniform_average", "raw_values"]):
                    yield from _emit("fn", name, opts, 2, 1, hw, mo, "V3", "P2" if q else "V3",
                                     tr, scale=hw is None or (not q and hw == [1, 2]))
            tr = ["train", "M_q" if q else "M_t"]
            for hw in (None, [3, 1]):
                for mo in MO3:
                    yield from _emit("fn", name, opts, 2, 2, hw, mo, "TAG", "P2", tr,
                                     scale=hw is None)
    for name in R.RELATIVE + ("relative_loss",):
        for opts in optsets(name):
            for hw in ([None, [3]] if q else HW[1]):
                for mo in ("uniform_average", "raw_values"):
                    yield from _emit("fn", name, opts, 1, 1, hw, mo, "V", "V", ["bench", "V"])
            for hw in HW[2]:
                for mo in (["uniform_average"] if q else ["uniform_average", "raw_values"]):
                    a = "V3" if q else "V"
                    yield from _emit("fn", name, opts, 2, 1, hw, mo, a, a, ["bench", "V3"])
            for hw in HW[3]:
                if q:
                    yield from _emit("fn", name, opts, 3, 1, hw, "uniform_average", "P2", "V3",
                                     ["bench", "B2"])
                else:
                    yield from _emit("fn", name, opts, 3, 1, hw, "uniform_average", "V3", "V3",
                                     ["bench", "V3"])
            for hw in ([None, [3, 1]] if q else [None, [1, 2], [3, 1]]):
                for mo in MO3:
                    if q:
                        yield from _emit("fn", name, opts, 2, 2, hw, mo, "TAG", "P2",
                                         ["bench", "B2"])
                    else:
                        yield from _emit("fn", name, opts, 2, 2, hw, mo, "P2", "V3",
                                         ["bench", "B2"])


def _cls_cases(q):
    for name, cls in CLASS_OF.items():
        fam = family(name)
        for opts in [{}] + [o for o in optsets(name) if o]:
            for L, ncol, at, ap in ((1, 1, "V", "V"), (2, 1, "V3", "V3"), (2, 2, "TAG", "P2")):
                third = None
                if fam == "scaled":
                    third = ["train", "U_c" if ncol == 1 else "M_c"]
                elif fam in ("rel", "relloss"):
                    third = ["bench", "V3" if L == 1 else "B2"]
                yield from _emit("cls", name, opts, L, ncol, None, "uniform_average", at, ap,
                                 third, cls=cls)


def gen_cases(tier, seed):
    q = tier == "quick"
    cases = list(_fn_cases(q)) + list(_cls_cases(q))
    # simplest first: univariate before two outputs, short before long, no third series first
    cases.sort(key=lambda c: (c["ncol"], c["L"], c["third"] is not None, c["kind"] == "cls"))
    for i, c in enumerate(cases):
        c["cont"] = CONT[(i + seed) % len(CONT)]
        yield c


# ------------------------------------------------------------------------------ helpers
def _wrap(a, cont, start=0):
    if a is None:
        return None
    if cont == "np":
        return np.array(a, dtype=float)
    if cont == "pd":
        arr = np.array(a, dtype=float)
        idx = pd.RangeIndex(start, start + len(a))
        if arr.ndim == 1:
            return pd.Series(arr, index=idx)
        return pd.DataFrame(arr, index=idx)
    return [list(r) if isinstance(r, list) else r for r in a]


def _wrap_train(a, cont):
    if cont == "pd":
        return _wrap(a, "pd", 0)
    return np.array(a, dtype=float)


def _wrap_hw(hw, cont):
    if hw is None:
        return None
    if cont == "np":
        return np.array(hw, dtype=float)
    if cont == "pd":
        return list(hw)
    return tuple(hw)


def _scaled(a, c):
    if a is None:
        return None
    if isinstance(a[0], list):
        return [[v * c for v in r] for r in a]
    return [v * c for v in a]


def _flat(x):
    a = np.asarray(x, dtype=float)
    return [float(v) for v in a.reshape(-1)]


def _close(got, exp, rtol):
    if len(got) != len(exp):
        return False
    for a, b in zip(got, exp):
        if a == b:
            continue
        if not abs(a - b) <= rtol * max(abs(a), abs(b)):
            return False
    return True


def _tag(case):
    t = []
    if case["hw"] is not None:
        t.append("weighted")
    if case["ncol"] > 1:
        t.append("multi")
    return "+".join(t) or "plain"


def _mo(mo):
    return mo if isinstance(mo, str) else list(mo)


class _Rep:
    """first violation per key of a case, carrying a one-input replay case"""

    def __init__(self, res, case):
        self.res, self.case, self.seen = res, case, set()

    def __call__(self, key, what, data, expected=None, observed=None):
        if key in self.seen:
            return
        self.seen.add(key)
        c = {k: v for k, v in self.case.items() if k not in ("part", "only")}
        c["only"] = data
        self.res.violate(key, what, expected=expected, observed=observed, case=c)


def _fn_kwargs(case, PF, with_agg=True):
    kw = {}
    for k, v in case["opts"].items():
        kw[k] = getattr(PF, v) if k == "relative_loss_function" else v
    if with_agg:
        kw["multioutput"] = _mo(case["mo"])
        if case["hw"] is not None:
            kw["horizon_weight"] = _wrap_hw(case["hw"], case["cont"])
    return kw


def _ref_kwargs(case):
    kw = dict(case["opts"])
    kw["multioutput"] = _mo(case["mo"])
    kw["horizon_weight"] = case["hw"]
    return kw


def _args(case, third, yt, yp, c=1.0):
    """positional/keyword arguments of the function under test, all series scaled by c"""
    cont = case["cont"]
    fam = family(case["metric"])
    start = len(third) if (fam == "scaled" and third is not None) else 0
    if c != 1.0:
        third, yt, yp = _scaled(third, c), _scaled(yt, c), _scaled(yp, c)
    a = [_wrap(yt, cont, start), _wrap(yp, cont, start)]
    extra = {}
    if fam == "scaled":
        extra["y_train"] = _wrap_train(third, cont)
    elif fam in ("rel", "relloss"):
        extra["y_pred_benchmark"] = _wrap(third, cont, start)
    return a, extra


def run_case(case):
    res = Result()
    res.evals = 0
    if case["kind"] == "fn":
        _run_fn(case, res)
    else:
        _run_cls(case, res)
    res.evals = max(res.evals, 1)
    return res


# ------------------------------------------------------------------- functions vs reference
def _run_fn(case, res):
    import sktime.performance_metrics.forecasting as PF

    name = case["metric"]
    fam = family(name)
    fn = getattr(PF, name)
    kw = _fn_kwargs(case, PF)
    rkw = _ref_kwargs(case)
    opts = case["opts"]
    raw = case["mo"] == "raw_values"
    tag = _tag(case)
    rep = _Rep(res, case)
    key = "%s:%s:" % (name, tag)
    rtol = 1e-11 if name.startswith("geometric") else 1e-12
    sym = fam == "pct" and opts.get("symmetric", True)
    bound = 4.0 if (sym and "squared" in name and not opts.get("square_root")) else 2.0
    third_kw = {"scaled": "y_train", "rel": "y_pred_benchmark",
                "relloss": "y_pred_benchmark"}.get(fam)
    base = _h((name, sorted(opts.items()), case["hw"], case["mo"], case["L"], case["ncol"],
               case["a_true"], case["a_pred"], case["third"]))
    swap = {} if sym else None
    outs = set()
    for idx, third, yt, yp in _data(case):
        dat = [[third, yt, yp]]
        a, extra = _args(case, third, yt, yp)
        o = call(fn, *a, **extra, **kw)
        res.evals += 1
        info = {}
        if third_kw:
            rkw[third_kw] = third
        exp = R.metric(name, yt, yp, info=info, **rkw)
        if not o.ok:
            outs.add("raises:" + o.kind)
            rep(key + "raises", "metric function raised on valid input", dat, expected=exp,
                observed=o.brief())
            continue
        got = o.value
        if raw != (np.ndim(got) == 1) or (raw and len(got) != case["ncol"]):
            rep(key + "shape", "result shape does not follow multioutput", dat,
                expected="array(n_outputs)" if raw else "scalar", observed=got)
            continue
        g = _flat(got)
        e = exp if raw else [exp]
        perfect = yt == yp
        if _close(g, e, rtol):
            outs.add("ok")
            if not perfect:
                res.nontrivial.append("%s:%d" % (base, idx))
        else:
            rep(key + "value", "value differs from the documented formula", dat, expected=exp,
                observed=got)
        # ---- laws, independent of the reference value
        if not all(v >= 0.0 for v in g):
            rep(key + "negative", "loss is negative or NaN", dat, expected=">= 0", observed=got)
        if perfect:
            outs.add("perfect")
            pv = R.perfect_value(name, opts.get("square_root", False))
            if not _close(g, [pv] * len(g), 1e-11 if pv else 0.0):
                rep(key + "perfect", "perfect forecast does not give the documented best value",
                    dat, expected=pv, observed=got)
        if sym:
            if not all(v <= bound * (1 + 1e-12) for v in g):
                rep(key + "range", "symmetric percentage error outside its range", dat,
                    expected="<= %g" % bound, observed=got)
            swap[(repr(yt), repr(yp))] = (g, yt, yp)
            if "only" in case:
                a2, _ = _args(case, None, yp, yt)
                o2 = call(fn, *a2, **kw)
                if o2.ok:
                    swap[(repr(yp), repr(yt))] = (_flat(o2.value), yp, yt)
        if case["scale"] and fam == "scaled":
            clamped = info.get("clamped", [False])
            if all(clamped):
                outs.add("clamped")
            else:
                pw = 2 if "squared" in name else 1
                for c in (2.0, 0.5, 2.0 ** -20, 2.0 ** 20):
                    if any(0 < d * c ** pw < 1e-13 for d in info.get("den", [])):
                        continue  # the rescaled in-sample error would reach the documented floor
                    a2, ex2 = _args(case, third, yt, yp, c)
                    o2 = call(fn, *a2, **ex2, **kw)
                    res.evals += 1
                    if not o2.ok:
                        rep(key + "raises", "metric function raised on valid input",
                            dat, observed=o2.brief())
                        continue
                    g2 = _flat(o2.value)
                    keep = [i for i in range(len(g))
                            if not (len(clamped) == len(g) and clamped[i])]
                    if len(g2) != len(g) or any(g[i] != g2[i] for i in keep):
                        rep(key + "scale", "scaled error changes when all series are "
                            "multiplied by %g" % c, dat, expected=got, observed=o2.value)
                outs.add("scale-law")
    if swap:
        for (a_, b_), (g, yt, yp) in swap.items():
            if a_ < b_ and (b_, a_) in swap:
                g2 = swap[(b_, a_)][0]
                if not _close(g, g2, 1e-12):
                    rep(key + "swap", "symmetric percentage error changes when y_true and "
                        "y_pred are swapped", [[None, yt, yp]], expected=g, observed=g2)
        outs.add("swap-law")
    for s in outs:
        res.outcome("fn:%s:%s:%s" % (fam, tag, s))


# ------------------------------------------------------------------------ classes vs functions
def _run_cls(case, res):
    import sktime.performance_metrics.forecasting as PF

    name, cname = case["metric"], case["cls"]
    fam = family(name)
    fn, Cls = getattr(PF, name), getattr(PF, cname)
    rep = _Rep(res, case)
    kw = _fn_kwargs(case, PF, with_agg=False)
    io = call(lambda: Cls(**kw))
    res.evals += 1
    if not io.ok:
        rep(cname + ":ctor:raises", "metric class cannot be constructed with its documented "
            "options", [], observed=io.brief())
        res.outcome("cls:ctor:" + io.kind)
        return
    inst = io.value
    for p, v in kw.items():
        have = call(lambda: inst.get_params()[p])
        attr = getattr(inst, p, "<missing>")
        if not have.ok or have.value is not v and have.value != v or \
                (attr is not v and attr != v):
            rep("%s:ctor:%s" % (cname, p), "constructor option is not stored: the instance "
                "cannot behave like the function called with this option", [],
                expected=repr(v), observed=repr(attr))
    outs = set()
    base = _h(("cls", cname, sorted(case["opts"].items()), case["L"], case["ncol"]))
    for idx, third, yt, yp in _data(case):
        dat = [[third, yt, yp]]
        a, extra = _args(case, third, yt, yp)
        fo = call(fn, *a, **extra, **kw)
        co = call(inst, *a, **extra)
        if co.is_a(TypeError) and extra:
            co2 = call(inst, *a, *extra.values())
            if co2.ok or not co2.is_a(TypeError):
                co = co2
        res.evals += 2
        outs.add("%s/%s" % (fo.kind, co.kind))
        if not fo.ok:
            if co.ok:
                rep(cname + ":call:accepts", "class returns a value where its function raises",
                    dat, expected=fo.brief(), observed=co.value)
            continue
        if not co.ok:
            rep(cname + ":call:raises", "metric class cannot be evaluated although its function "
                "can, with the same options", dat, expected=fo.value, observed=co.brief())
            continue
        if yt != yp:
            res.nontrivial.append("%s:%d" % (base, idx))
        if not np.array_equal(np.asarray(fo.value), np.asarray(co.value)):
            rep(cname + ":call:value", "class and function disagree with the same options", dat,
                expected=fo.value, observed=co.value)
    for s in outs:
        res.outcome("cls:%s:%s" % (fam, s))
