"""C09 - composite forecasters mean exactly the composition of their parts
(E2: call histories of the real composite vs a hand-composed denotation + recording doubles)."""
import itertools

import numpy as np
import pandas as pd

from .. import fmenu
from ..core import Result, call, close, subsets

ID = "C09"
LEVEL = "model_checking"
ANCHORS = [
    "sktime/forecasting/compose/_ensemble.py", "sktime/forecasting/compose/_pipeline.py",
    "sktime/forecasting/compose/_multiplexer.py", "sktime/forecasting/compose/_stack.py",
    "sktime/forecasting/base/_meta.py",
    "sktime/forecasting/online_learning/_online_ensemble.py",
]
RULE = (
    "programs: ensembles over every non-empty subset of 3 recording members x 4 aggregates "
    "(+ online ensemble without algorithm); pipelines over every transformer sequence of length "
    "<=2 from a 10-element menu (Detrender, Deseasonalizer add/mult, Log, BoxCox, tabular "
    "adaptor, Imputer (skip-inverse), OptionalPassthrough on/off, affine recording double) in "
    "front of a recording forecaster; multiplexer selecting each member; stacking over member "
    "subsets with a recording meta-regressor; depth-2 nestings. For each program x horizon "
    "(non-empty subsets of {1,2,3}; thorough: of {1,2,3,4}) every history of the menu {fit->predict, "
    "fit->update(T/F)->predict, fit->update->update->predict (TT/FF/TF), fit->predict->update->predict}"
    " (thorough: EVERY word over {predict, update(T), update(F)} of length <=4 that ends in predict, "
    "40 histories) is run on the "
    "real composite and on the hand-composed parts; forecasts, cutoffs and the complete call "
    "log of the inner recording estimators are compared. Independence: for 18 programs x 3 "
    "histories x 2 horizons a second composite constructed from the same member objects is "
    "fitted/updated on other data in between (+ ensembles whose aggregate is chosen by set_params, directly or on a clone, instead of the constructor); the first one's forecasts must not move. states = (program, history prefix) "
    "pairs reached; transitions = calls executed on the real composite."
)
ASSUMPTIONS = [
    "where the hand composition itself raises (e.g. log of detrended negative residuals) the "
    "composite must raise too; nothing else is judged there",
    "pipeline update semantics: every transformer is updated with, and then transforms, the "
    "output of the previous one (the representation the final forecaster was fitted on)",
]

TMENU = [["detrend", 1], ["deseason", 2, "additive"], ["deseason", 3, "multiplicative"], ["log"],
         ["boxcox"], ["std"], ["imputer"], ["opt", ["log"], False], ["opt", ["log"], True],
         ["rect", "T", 2.0, 1.0]]
HISTS = ["fp", "fUp", "fup", "fUUp", "fuup", "fpUp", "fUup"]
MEMBERS = [["rec", "A", "last", 0.0], ["rec", "B", "mean", 10.0], ["rec", "C", "last", -3.5]]


def gen_cases(tier, seed):
    # quick: the 7-history menu x every non-empty subset of {1,2,3}; thorough: EVERY history
    # fit -> w with w in {p,U,u}^{<=4} ending in p (40 histories, <= 3 updates) x every non-empty
    # subset of {1,2,3,4}
    fhs = list(subsets([1, 2, 3] if tier == "quick" else [1, 2, 3, 4]))
    hists = HISTS if tier == "quick" else \
        ["f" + "".join(w) + "p" for k in range(4) for w in itertools.product("pUu", repeat=k)]
    qfh = fhs
    for sub in subsets(range(3)):
        for agg in ("mean", "median", "min", "max", "online"):
            for h in hists:
                for fh in qfh:
                    yield dict(kind="ens", members=sub, agg=agg, hist=h, fh=fh, fam=seed % 2)
    seqs = [[t] for t in range(len(TMENU))] + [list(p) for p in
                                                itertools.product(range(len(TMENU)), repeat=2)]
    for seq in seqs:
        for h in hists:
            for fh in (qfh if len(seq) == 1 else ([[1], [2, 3], [1, 2, 3]] if tier == "quick" else qfh)):
                yield dict(kind="ttf", seq=seq, hist=h, fh=fh, fam=seed % 2)
    for sel in range(3):
        for h in hists:
            for fh in qfh:
                yield dict(kind="mux", sel=sel, hist=h, fh=fh, fam=seed % 2)
    for sub in subsets(range(3)):
        for h in hists:
            for fh in fhs:
                yield dict(kind="stack", members=sub, hist=h, fh=fh, fam=seed % 2)
    for k in range(7):
        for h in hists:
            for fh in qfh:
                yield dict(kind="nest", which=k, hist=h, fh=fh, fam=seed % 2)
    # the horizon given to fit as ABSOLUTE time points (stacking must still train its
    # meta-regressor on member forecasts of the held-out final window)
    for sub in subsets(range(3)):
        for fh in ([1], [2, 3], [1, 2, 3], [3]):
            yield dict(kind="stack", members=sub, hist="fp", fh=fh, fam=seed % 2, absfh=True)
            for h in ("fp", "fUp", "fup"):
                yield dict(kind="ens", members=sub, agg="mean", hist=h, fh=fh, fam=seed % 2,
                           absfh=True)
    # the aggregate chosen through set_params (directly / on a clone) instead of the constructor
    for sub in ([0, 1], [0, 1, 2]):
        for agg in ("mean", "median", "min", "max"):
            for h in ("fp", "fUp", "fup"):
                for via in ("set", "clone"):
                    yield dict(kind="ens", members=sub, agg=agg, hist=h, fh=[1, 3], fam=seed % 2,
                               viaset=via)
    # members fitted as tasks of a parallel call (n_jobs=2 under the harness' own joblib backend,
    # which collects all tasks of a call before running them in submission order)
    for sub in ([0, 1], [0, 1, 2]):
        for agg in ("mean", "median"):
            for h in ("fp", "fUp", "fup"):
                yield dict(kind="ens", members=sub, agg=agg, hist=h, fh=[1, 2], fam=seed % 2,
                           par=True)
        for h in ("fp", "fUp"):
            yield dict(kind="stack", members=sub, hist=h, fh=[1, 2], fam=seed % 2, par=True)
    # independence: two composites constructed from the SAME member objects
    progs = [dict(kind="ens", members=[0, 1, 2], agg=a) for a in ("mean", "median", "online")] + \
        [dict(kind="ttf", seq=[i]) for i in (0, 1, 3, 9)] + [dict(kind="ttf", seq=[0, 9])] + \
        [dict(kind="mux", sel=i) for i in range(3)] + [dict(kind="stack", members=[0, 1])] + \
        [dict(kind="nest", which=k) for k in range(7)]
    for pr in progs:
        for h in ("fp", "fUp", "fup"):
            for fh in ([1, 2], [3]):
                yield dict(kind="shared", prog=pr, hist=h, fh=fh, fam=seed % 2)


def _series(n, fam, start=3):
    t = np.arange(n, dtype=float)
    v = 20.0 + 1.25 * t + np.array([3.0, -1.0, 0.5, 1.5, -2.0, 2.5])[(t.astype(int) * (fam + 1)) % 6]
    return pd.Series(v, index=pd.RangeIndex(start, start + n))


def _retag(spec, suffix):
    """copy of a spec with every recording double's tag suffixed"""
    if isinstance(spec, list):
        if spec and spec[0] in ("rec", "rect"):
            return [spec[0], spec[1] + suffix] + spec[2:]
        return [_retag(s, suffix) for s in spec]
    return spec


def _program(case):
    k = case["kind"]
    if k == "ens":
        return ["ens", case["agg"], [MEMBERS[i] for i in case["members"]]]
    if k == "ttf":
        return ["ttf", [TMENU[i] for i in case["seq"]], ["rec", "F", "last", 0.0]]
    if k == "mux":
        return ["mux", MEMBERS, case["sel"]]
    if k == "stack":
        return ["stack", [MEMBERS[i] for i in case["members"]], "rec"]
    return [
        ["ens", "mean", [["ttf", [["rect", "T", 2.0, 1.0]], MEMBERS[0]], MEMBERS[1]]],
        ["ttf", [["log"]], ["ens", "median", MEMBERS]],
        ["mux", [["ens", "max", MEMBERS[:2]], MEMBERS[2]], 0],
        ["stack", [["ttf", [["detrend", 1]], MEMBERS[0]], MEMBERS[1]], "rec"],
        ["ttf", [["rect", "T", 3.0, -2.0]], ["mux", MEMBERS, 1]],
        ["ttf", [["ttfT", [["log"], ["deseason", 2, "multiplicative"]]]], MEMBERS[0]],
        ["ttf", [["detrend", 1], ["ttfT", [["boxcox"], ["rect", "T", 2.0, 5.0]]]], MEMBERS[2]],
    ][case["which"]]


# ------------------------------------------------------------------ hand composition
class Manual:
    """denotation of a composite spec, composed from independently built parts"""

    def __init__(self, spec):
        from sklearn.base import clone
        from .. import doubles

        self.spec = spec
        k = spec[0]
        if k == "ens":
            self.parts = [Manual(s) for s in spec[2]]
        elif k == "ttf":
            # a pipeline used as a transformer step denotes the flat chain of its transformers
            flat = []
            for t in spec[1]:
                flat.extend(t[1] if t[0] == "ttfT" else [t])
            self.ts = [fmenu.build_t(s) for s in flat]
            self.f = Manual(spec[2])
        elif k == "mux":
            self.f = Manual(spec[1][spec[2]])
        elif k == "stack":
            self.parts = [Manual(s) for s in spec[1]]
            self.meta = doubles.RecRegressor()
        else:
            self.leaf = fmenu.build(spec)
        self.clone = clone

    def fit(self, y, fh):
        from sktime.utils import _has_tag  # noqa - only used for the skip tag lookup

        k = self.spec[0]
        self.cutoff = y.index[-1]
        if k in ("ens",):
            for p in self.parts:
                p.fit(y, fh)
        elif k == "ttf":
            yt = y
            for t in self.ts:
                yt = t.fit(yt).transform(yt)
            self.f.fit(yt, fh)
        elif k == "mux":
            self.f.fit(y, fh)
        elif k == "stack":
            H = max(fh)
            n = len(y)
            inner = y.iloc[: n - H]
            held = y.iloc[[n - H - 1 + h for h in fh]]
            for p in self.parts:
                p.fit(inner, fh)
            Xm = np.column_stack([p.predict(None).values for p in self.parts])
            self.meta.fit(Xm, held.values)
            self.parts = [Manual(s) for s in self.spec[1]]
            for p in self.parts:
                p.fit(y, fh)
        else:
            self.leaf.fit(y, fh=fh)
        return self

    def update(self, y, up):
        k = self.spec[0]
        self.cutoff = y.index[-1]
        if k in ("ens", "stack"):
            for p in self.parts:
                p.update(y, up)
        elif k == "ttf":
            yt = y
            for t in self.ts:
                if hasattr(t, "update"):
                    t.update(yt, update_params=up)
                yt = t.transform(yt)
            self.f.update(yt, up)
        elif k == "mux":
            self.f.update(y, up)
        else:
            self.leaf.update(y, update_params=up)

    def predict(self, fh):
        from sktime.utils import _has_tag

        k = self.spec[0]
        if k == "ens":
            P = pd.concat([p.predict(fh) for p in self.parts], axis=1)
            agg = self.spec[1]
            if agg in ("mean", "online"):
                vals = [sum(r) / len(r) for r in P.values.tolist()]
            elif agg == "median":
                vals = [sorted(r)[len(r) // 2] if len(r) % 2 else
                        (sorted(r)[len(r) // 2 - 1] + sorted(r)[len(r) // 2]) / 2
                        for r in P.values.tolist()]
            elif agg == "min":
                vals = [min(r) for r in P.values.tolist()]
            else:
                vals = [max(r) for r in P.values.tolist()]
            return pd.Series(vals, index=P.index)
        if k == "ttf":
            p = self.f.predict(fh)
            for t in reversed(self.ts):
                if not _has_tag(t, "skip-inverse-transform"):
                    p = t.inverse_transform(p)
            return p
        if k == "mux":
            return self.f.predict(fh)
        if k == "stack":
            Xm = np.column_stack([p.predict(None).values for p in self.parts])
            out = self.meta.predict(Xm)
            idx = self.parts[0].predict(None).index
            return pd.Series(out, index=idx)
        return self.leaf.predict(fh)


def _build_real(spec):
    from sktime.forecasting.online_learning import OnlineEnsembleForecaster

    if spec[0] == "ens" and spec[1] == "online":
        return OnlineEnsembleForecaster([("m%d" % i, fmenu.build(s))
                                         for i, s in enumerate(spec[2])])
    if spec[0] == "stack":
        return fmenu.build(["stack", spec[1], "rec"])
    return fmenu.build(spec)


def _play(obj, spec, hist, y_full, n0, fh, manual, absfh=False):
    """run a history; returns list of observations"""
    out = []
    needs = fmenu.needs_fh_at_fit(spec)
    pos = n0
    if manual:
        obj.fit(y_full.iloc[:n0].copy(), fh)
    elif absfh:
        from sktime.forecasting.base import ForecastingHorizon

        c0 = int(y_full.index[n0 - 1])
        obj.fit(y_full.iloc[:n0].copy(),
                fh=ForecastingHorizon(np.array([c0 + h_ for h_ in fh]), is_relative=False))
    else:
        obj.fit(y_full.iloc[:n0].copy(), fh=fh)
    for ch in hist[1:]:
        if ch == "p":
            p = obj.predict(None) if needs else obj.predict(fh)
            out.append(("P", [int(i) for i in p.index], [float(v) for v in p.values]))
        else:
            b = y_full.iloc[pos:pos + 2]
            pos += 2
            if manual:
                obj.update(b.copy(), ch == "U")
            else:
                obj.update(b.copy(), update_params=(ch == "U"))
            out.append(("U", int(obj.cutoff)))
    return out


def _run_shared(case):
    """composite A and composite B are constructed from the same member objects; B is fitted on
    other data between A's fit and A's forecasts. A must still be the composition of ITS OWN
    independently fitted parts, i.e. forecast as if B did not exist."""
    from .. import doubles

    res = Result()
    pc = dict(case["prog"])
    spec = _program(pc)
    fh, hist, n0 = case["fh"], case["hist"], 14
    y = _series(n0 + 6, case["fam"])
    y2 = _series(n0 + 9, 1 - case["fam"], start=40) * 3.0 + 100.0
    needs = fmenu.needs_fh_at_fit(spec)

    def play(with_twin):
        doubles.reset_log()
        doubles.reset_tokens()
        A = _build_real(_retag(spec, "#r"))
        B = type(A)(**A.get_params(deep=False)) if with_twin else None
        A.fit(y.iloc[:n0].copy(), fh=fh)
        if B is not None:
            B.fit(y2.iloc[:n0 + 3].copy(), fh=fh)
        pos, out = n0, []
        for ch in hist[1:]:
            if ch == "p":
                p = A.predict(None) if needs else A.predict(fh)
                out.append(("P", [int(i) for i in p.index], [float(v) for v in p.values]))
            else:
                A.update(y.iloc[pos:pos + 2].copy(), update_params=(ch == "U"))
                if B is not None:
                    B.update(y2.iloc[n0 + 3 + pos - n0:n0 + 5 + pos - n0].copy(),
                             update_params=(ch == "U"))
                pos += 2
                out.append(("U", int(A.cutoff)))
        return out

    a = call(play, False)
    b = call(play, True)
    res.transitions += 2 * len(hist)
    res.states += len(hist)
    res.outcome("shared:%s:%s:%s" % (pc["kind"], a.kind, b.kind))
    if not a.ok:
        return res
    res.nt((str(spec), hist, tuple(fh)))
    tag = "shared:" + pc["kind"]
    if not b.ok:
        res.violate(tag + ":raises", "composite raises once a second composite built from the "
                    "same member objects has been fitted", expected=a.value, observed=b.brief())
    elif a.value != b.value:
        res.violate(tag + ":not-independent", "a composite's forecasts change when a second "
                    "composite constructed from the same member objects is fitted on other data "
                    "(members are not fitted as independent copies)", expected=a.value,
                    observed=dict(got=b.value, history=hist))
    return res


def run_case(case):
    from .. import doubles

    if case["kind"] == "shared":
        return _run_shared(case)
    res = Result()
    spec = _program(case)
    fh = case["fh"]
    hist = case["hist"]
    n0 = 14
    y = _series(n0 + 6, case["fam"])
    tag = case["kind"] + (":" + case["agg"] if case["kind"] == "ens" else "")
    if case["kind"] == "ttf":
        tag = "ttf:" + "+".join(TMENU[i][0] for i in case["seq"])
    # real composite (recording doubles tagged ...#r) and manual composition (...#m)
    doubles.reset_log()
    doubles.reset_tokens()
    if case.get("viaset"):
        # the aggregate is chosen AFTER construction (set_params, as a tuner would do)
        other = {"mean": "max", "median": "min", "min": "median", "max": "mean"}[spec[1]]
        real = _build_real(_retag([spec[0], other] + list(spec[2:]), "#r"))
        if case["viaset"] == "clone":
            from sklearn.base import clone

            real = clone(real)
        real.set_params(aggfunc=spec[1])
    else:
        real = _build_real(_retag(spec, "#r"))
    if case.get("par"):
        from .. import sched

        real.set_params(n_jobs=2)
        with sched.order_backend():
            a = call(_play, real, spec, hist, y, n0, fh, False)
    else:
        a = call(_play, real, spec, hist, y, n0, fh, False, bool(case.get("absfh")))
    log_r = [(t[0].replace("#r", ""),) + tuple(t[1:]) for t in doubles.LOG if "#r" in t[0]]
    tok_r = None
    if spec[0] == "stack" and a.ok:
        tok_r = (real.final_regressor_.fit_X_.tolist(), real.final_regressor_.fit_y_.tolist())
    doubles.reset_log()
    doubles.reset_tokens()
    man = Manual(_retag(spec, "#m"))
    b = call(_play, man, spec, hist, y, n0, fh, True)
    log_m = [(t[0].replace("#m", ""),) + tuple(t[1:]) for t in doubles.LOG if "#m" in t[0]]
    res.transitions += len(hist)
    res.states += len(hist)
    res.outcome("%s:%s:%s" % (case["kind"], a.kind, b.kind))
    if not b.ok:
        if a.ok:
            res.violate(tag + ":accepts", "composite produces a result where the composition "
                        "of its parts raises", expected=b.brief(), observed=a.value)
        return res
    if not a.ok:
        res.violate(tag + ":raises", "composite raises where the composition of its parts "
                    "works", expected=b.value, observed=a.brief())
        return res
    res.nt((str(spec), hist, tuple(fh)))
    for oa, ob in zip(a.value, b.value):
        if oa[0] == "U":
            if oa != ob:
                res.violate(tag + ":cutoff", "cutoff after update", expected=ob, observed=oa)
                return res
        elif oa[1] != ob[1] or not close(oa[2], ob[2], rtol=1e-9, atol=1e-9):
            res.violate(tag + ":forecast", "composite forecast differs from the composition of "
                        "its parts", expected=dict(index=ob[1], values=ob[2]),
                        observed=dict(index=oa[1], values=oa[2], history=hist))
            return res
    # representation: what the inner recording estimators were given (fit AND update)
    def norm(log):
        out = []
        for t in log:
            if t[1] in ("fit", "update", "t.fit", "t.transform", "t.inverse", "t.update"):
                ser = t[2]
                out.append((t[0], t[1], None if ser is None else
                            (ser[0], [round(v, 9) if v == v else "nan" for v in ser[1]])))
        return out

    nr, nm = norm(log_r), norm(log_m)
    if case["kind"] in ("ttf", "nest", "ens", "mux", "stack"):
        # compare per recording estimator (order between different estimators is free)
        for who in sorted({t[0] for t in nm} | {t[0] for t in nr}):
            ra = [t for t in nr if t[0] == who and t[1] in ("fit", "update")]
            rb = [t for t in nm if t[0] == who and t[1] in ("fit", "update")]
            if ra != rb:
                res.violate(tag + ":representation", "inner estimator %s was fitted/updated "
                            "with other data than the composition prescribes" % who,
                            expected=rb[:4], observed=dict(calls=ra[:4], history=hist))
                return res
    if tok_r is not None:
        exp = (man.meta.fit_X_.tolist(), man.meta.fit_y_.tolist())
        if not close(np.array(tok_r[0]), np.array(exp[0]), rtol=1e-9) or \
                not close(np.array(tok_r[1]), np.array(exp[1]), rtol=1e-9):
            res.violate(tag + ":meta-training", "meta-regressor was not trained on the members' "
                        "forecasts for the held-out final window", expected=exp, observed=tok_r)
    return res
