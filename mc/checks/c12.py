"""C12 - applying an estimator is pure, reproducible and independent of scheduling
(E2 apply-call histories + E4 owned scheduler: task orders and preemption-bounded interleavings)."""
import copy
import itertools
import pickle

import numpy as np
import pandas as pd

from .. import canon, fmenu, sched
from ..core import Result, call, close

ID = "C12"
LEVEL = "model_checking"
ANCHORS = [
    "sktime/transformations/series/outlier_detection.py", "sktime/transformations/series/impute.py",
    "sktime/transformations/series/boxcox.py", "sktime/transformations/series/detrend/*.py",
    "sktime/transformations/panel/*.py", "sktime/forecasting/base/_sktime.py",
    "sktime/forecasting/base/_meta.py",
    "sktime/series_as_features/base/estimators/interval_based/_tsf.py",
    "sktime/classification/interval_based/*.py", "sktime/classification/dictionary_based/_boss.py",
    "sktime/regression/interval_based/_tsf.py", "sktime/utils/validation/__init__.py",
]
RULE = (
    "kind=refit/reparam: every program fitted on data A (and applied), then - optionally after "
    "set_params to other valid parameters - refitted on data B must equal a fresh estimator with "
    "those parameters fitted on B (classifiers: B has another label set). "
    "kind=apply: per estimator program (series transformers on inputs that trigger work - "
    "outlier, NaNs, seasonal -, panel transformers on nested / 3-D containers, forecaster menu, "
    "8 classifiers + regressor) every sequence of <=3 apply-type calls after fit (quick: all of "
    "length <=2 and those of length 3 that end in the first call); each output must equal the "
    "same call made first on a twin; every argument is snapshotted (values, index, dtype, name, "
    "cells) before/after fit and every call. kind=twin: equal parameters x random_state in "
    "{0,1,2} x n_jobs in {None,1,2,4} (threading backend) and pickle round trip give equal "
    "results. kind=order: at every runnable Parallel call site every task order (k<=4 all k!, "
    "else <=2 inversions + reverse; one deviating call at a time among the first 6 multi-task "
    "calls of the site, thorough: among all (<=128), and two deviating calls among the first 12) "
    "under the owned "
    "joblib backend equals the sequential result. kind=interleave: two real threads running two "
    "captured tasks under a line-event baton, every schedule with <=1 (thorough <=2, capped) "
    "preemption; each task's result must equal its sequential result. states = executed "
    "(estimator, call-history) prefixes; transitions = executed calls / schedules."
)
ASSUMPTIONS = [
    "'unchanged' caller data = equal values, index labels, dtypes and name (a statsmodels "
    "adapter re-labelling an integer Index as an equal-valued RangeIndex is not a change)",
    "purity is judged observationally (repeat / interleaved calls give equal results), not by "
    "bit-identical internal state: predict(fh) legitimately remembers the last horizon",
    "threads: only joblib's threading backend and the owned scheduler; C and third-party frames "
    "are atomic steps of the interleaver; process-based n_jobs is not explored",
]


# ------------------------------------------------------------------------------ programs
def _series(n=24, start=0, nan=False, outlier=False, positive=True):
    t = np.arange(n, dtype=float)
    v = 30.0 + 1.25 * t + np.array([4.0, -2.0, 1.0])[t.astype(int) % 3]
    if outlier:
        v[7] += 60.0
        v[15] -= 45.0
    if nan:
        v[3] = np.nan
        v[11] = np.nan
    return pd.Series(v, index=pd.RangeIndex(start, start + n))


def _panel(n_inst=10, n_col=1, L=24, shift=0.0):
    r = np.arange(n_inst * n_col * L, dtype=float).reshape(n_inst, n_col, L)
    return np.sin(r / 3.0 + shift) + (np.arange(n_inst) % 2)[:, None, None] * 1.5 + 0.01 * r


def _nested(P):
    from sktime.utils.data_processing import from_3d_numpy_to_nested

    return from_3d_numpy_to_nested(P)


S_PROGRAMS = [
    ["hampel", 5], ["imputer", "drift"], ["imputer", "mean"], ["imputer", "linear"],
    ["imputer", "ffill"], ["imputer", "nearest"], ["imputer", "median"], ["imputer", "constant"],
    ["imputer", "random"], ["boxcox"], ["log"], ["detrend", 1], ["deseason", 3, "additive"],
    ["deseason", 2, "multiplicative"], ["cdeseason", 3, "additive", True], ["std"], ["minmax"],
    ["opt", ["log"], False], ["cos"], ["acf", 4], ["pacf", 3], ["hampel-df", 5], ["imputer-df", "drift"],
    ["imputer-df", "mean"], ["imputer-df", "random"], ["imputer-df", "linear"], ["imputer-df", "ffill"],
    ["boxcox", "pearsonr"],
]
P_PROGRAMS = ["pad", "trunc", "interp", "tab", "concat", "iseg", "rseg", "slide", "paa", "plateau",
              "plateau-nan",
              "dslope", "rife", "slope", "dwt", "hog", "pca", "s2s-cos", "s2p-mean", "sax", "sfa"]
F_PROGRAMS = fmenu.BASIC + [["es"], ["theta", 3]] + fmenu.COMPOSITES[:9] + [
    ["naive-nan", "drift", 4], ["naive-nan", "mean", 3]]  # apply calls that FAIL half way
C_PROGRAMS = ["tsf", "rise", "stsf", "iboss", "boss", "cboss", "muse", "cens", "tsfr"]
SITES = ["ens_fit", "stack_fit", "tsf_fit_proba", "tsfr", "stsf", "rise", "grid", "boss", "cboss",
         "sfa", "fpe", "ets_auto", "iboss_ties", "boss_ties"]


def _build_s(spec):
    from sktime.transformations.series.acf import (
        AutoCorrelationTransformer, PartialAutoCorrelationTransformer)
    from sktime.transformations.series.cos import CosineTransformer
    from sktime.transformations.series.outlier_detection import HampelFilter

    k = spec[0].replace("-df", "")
    if k == "hampel":
        return HampelFilter(window_length=spec[1])
    if k == "cos":
        return CosineTransformer()
    if k == "acf":
        return AutoCorrelationTransformer(n_lags=spec[1])
    if k == "pacf":
        return PartialAutoCorrelationTransformer(n_lags=spec[1])
    if k == "imputer" and spec[1] == "random":
        from sktime.transformations.series.impute import Imputer

        return Imputer(method="random", random_state=0)
    return fmenu.build_t([k] + spec[1:])


def _build_p(name, rs=0):
    from sktime.transformations.panel import compose, interpolate, padder, reduce, segment, slope
    from sktime.transformations.panel import truncation
    from sktime.transformations.panel.dictionary_based import PAA, SAX, SFA
    from sktime.transformations.panel.dwt import DWTTransformer
    from sktime.transformations.panel.hog1d import HOG1DTransformer
    from sktime.transformations.panel.pca import PCATransformer
    from sktime.transformations.panel.summarize import (
        DerivativeSlopeTransformer, PlateauFinder, RandomIntervalFeatureExtractor)
    from sktime.transformations.series.cos import CosineTransformer
    from sktime.transformations.series.summarize import MeanTransformer

    return {
        "pad": lambda: padder.PaddingTransformer(pad_length=30),
        "trunc": lambda: truncation.TruncationTransformer(lower=2, upper=20),
        "interp": lambda: interpolate.TSInterpolator(10),
        "tab": lambda: reduce.Tabularizer(),
        "concat": lambda: compose.ColumnConcatenator(),
        "iseg": lambda: segment.IntervalSegmenter(3),
        "rseg": lambda: segment.RandomIntervalSegmenter(n_intervals=3, random_state=rs),
        "slide": lambda: segment.SlidingWindowSegmenter(window_length=5),
        "paa": lambda: PAA(num_intervals=5),
        "plateau": lambda: PlateauFinder(),
        "plateau-nan": lambda: PlateauFinder(),  # default value NaN, on panels with NaN runs
        "dslope": lambda: DerivativeSlopeTransformer(),
        "rife": lambda: RandomIntervalFeatureExtractor(n_intervals=3, random_state=rs),
        "slope": lambda: slope.SlopeTransformer(num_intervals=4),
        "dwt": lambda: DWTTransformer(),
        "hog": lambda: HOG1DTransformer(),
        "pca": lambda: PCATransformer(n_components=3),
        "s2s-cos": lambda: compose.SeriesToSeriesRowTransformer(CosineTransformer()),
        "s2p-mean": lambda: compose.SeriesToPrimitivesRowTransformer(MeanTransformer()),
        "sax": lambda: SAX(word_length=4, alphabet_size=3, window_size=8),
        "sfa": lambda: SFA(word_length=4, alphabet_size=3, window_size=8),
    }[name]()


def _build_c(name, rs=0, n_jobs=None):
    from sktime.classification.compose import ColumnEnsembleClassifier
    from sktime.classification.dictionary_based import (
        BOSSEnsemble, ContractableBOSS, IndividualBOSS, MUSE)
    from sktime.classification.interval_based import (
        RandomIntervalSpectralForest, SupervisedTimeSeriesForest, TimeSeriesForestClassifier)
    from sktime.regression.interval_based import TimeSeriesForestRegressor

    nj = {} if n_jobs is None else {"n_jobs": n_jobs}
    if name == "tsf":
        return TimeSeriesForestClassifier(n_estimators=5, random_state=rs, **nj)
    if name == "tsfr":
        return TimeSeriesForestRegressor(n_estimators=5, random_state=rs, **nj)
    if name == "rise":
        return RandomIntervalSpectralForest(n_estimators=3, random_state=rs, acf_lag=6,
                                            min_interval=8, **nj)
    if name == "stsf":
        return SupervisedTimeSeriesForest(n_estimators=3, random_state=rs, **nj)
    if name == "iboss":
        return IndividualBOSS(window_size=8, word_length=4, random_state=rs, **nj)
    if name == "boss":
        return BOSSEnsemble(max_ensemble_size=3, random_state=rs, **nj)
    if name == "cboss":
        return ContractableBOSS(n_parameter_samples=6, max_ensemble_size=3, random_state=rs, **nj)
    if name == "muse":
        return MUSE(window_inc=6, random_state=rs)
    if name == "cens":
        return ColumnEnsembleClassifier([
            ("a", TimeSeriesForestClassifier(n_estimators=3, random_state=rs), [0]),
            ("b", IndividualBOSS(window_size=8, word_length=4, random_state=rs), [1])])
    raise ValueError(name)


# (family, program, parameters to set on the fitted estimator before refitting)
REPARAM = [
    ("s", ["opt", ["log"], False], {"passthrough": True}),
    ("s", ["opt", ["log"], True], {"passthrough": False}),
    ("s", ["deseason", 3, "additive"], {"sp": 2}),
    ("s", ["deseason", 2, "additive"], {"model": "multiplicative"}),
    ("s", ["detrend", 1], {"forecaster__degree": 2}),
    ("s", ["boxcox"], {"method": "pearsonr"}),
    ("s", ["hampel", 5], {"window_length": 3}),
    ("s", ["imputer", "mean"], {"method": "median"}),
    ("f", ["naive", "last"], {"strategy": "mean", "window_length": 3}),
    ("f", ["naive", "mean", 1, 4], {"window_length": 2}),
    ("f", ["naive", "last", 3], {"sp": 2}),
    ("f", ["poly", 1], {"degree": 2}),
    ("f", ["poly", 2], {"with_intercept": False}),
    ("f", ["red", "recursive", 3, "lin"], {"window_length": 2}),
    ("f", ["red", "direct", 3, "lin"], {"window_length": 4}),
    ("f", ["red", "multioutput", 2, "lin"], {"window_length": 3}),
    ("f", ["red", "dirrec", 2, "lin"], {"window_length": 3}),
    ("f", ["ens", "mean", [["naive", "last"], ["poly", 1]]], {"aggfunc": "max", "m1__degree": 2}),
    ("f", ["ttf", [["deseason", 3, "additive"]], ["naive", "drift"]], {"t0__sp": 2, "f__strategy": "last"}),
    ("f", ["mux", [["naive", "last"], ["poly", 1], ["naive", "drift"]], 1], {"selected_forecaster": "m2"}),
    ("f", ["theta", 3], {"sp": 1}),
    ("p", "paa", {"num_intervals": 3}),
    ("p", "iseg", {"intervals": 2}),
    ("p", "slide", {"window_length": 3}),
    ("p", "pad", {"pad_length": 40, "fill_value": 1}),
    ("p", "trunc", {"lower": 1, "upper": 10}),
    ("p", "interp", {"length": 7}),
    ("p", "rseg", {"n_intervals": 2, "random_state": 5}),
    ("p", "slope", {"num_intervals": 3}),
    ("p", "pca", {"n_components": 2}),
    ("c", "tsf", {"n_estimators": 3, "min_interval": 5}),
    ("c", "tsfr", {"n_estimators": 3}),
    ("c", "iboss", {"window_size": 10, "word_length": 6}),
    ("c", "boss", {"max_ensemble_size": 2}),
    ("c", "stsf", {"n_estimators": 2}),
]


def gen_cases(tier, seed):
    for i in range(len(S_PROGRAMS)):
        yield dict(kind="apply", fam="s", prog=i)
    for name in P_PROGRAMS:
        for cont in ("nested", "numpy"):
            yield dict(kind="apply", fam="p", prog=name, cont=cont)
    for i in range(len(F_PROGRAMS)):
        yield dict(kind="apply", fam="f", prog=i)
    for name in C_PROGRAMS:
        for cont in ("nested", "numpy"):
            yield dict(kind="apply", fam="c", prog=name, cont=cont)
    for name in C_PROGRAMS + ["rseg", "rife", "imputer-random"]:
        for rs in (0, 1, 2):
            yield dict(kind="twin", prog=name, rs=rs)
    # an estimator that was fitted before (on other data, possibly with other parameters) must
    # behave like a fresh one with the same parameters fitted on the same data
    for i in range(len(S_PROGRAMS)):
        yield dict(kind="refit", fam="s", prog=i)
    for name in P_PROGRAMS:
        yield dict(kind="refit", fam="p", prog=name)
    for i in range(len(F_PROGRAMS)):
        yield dict(kind="refit", fam="f", prog=i)
    for name in C_PROGRAMS:
        yield dict(kind="refit", fam="c", prog=name)
    for i in range(len(REPARAM)):
        yield dict(kind="reparam", which=i)
    from . import c04
    for name in c04.RUNNABLE:
        yield dict(kind="refit", fam="all", prog=name)
    for site in SITES:
        # one case per deviating Parallel call (quick: the first 6 multi-task calls of the site)
        for cno in range(6 if tier == "quick" else 128):
            yield dict(kind="order", site=site, dev=1, call=cno, lim=6 if tier == "quick" else 128)
        if tier != "quick":
            # two deviating calls, sharded by the first of them
            # (pairs among the first 12 multi-task calls of the site: 66 pairs x order pairs)
            for cno in range(11):
                yield dict(kind="order", site=site, dev=2, call=None, pair_first=cno, lim=128,
                           pair_limit=12)
    pairs = [(0, 1)] if tier == "quick" else [(0, 1), (0, 2), (1, 2)]
    small = ["tsf_fit", "tsf_proba", "tsfr_predict", "ens_fit"]      # 60-75 points per task
    big = ["stsf_fit", "rise_fit", "boss_predict"]                   # 1 000-6 000 points per task
    for site in small:
        nch = 1 if tier == "quick" else 8
        for pr in pairs:
            for first in (0, 1):
                for ch in range(nch):
                    yield dict(kind="interleave", site=site, pair=list(pr), first=first,
                               bound=1 if tier == "quick" else 2, chunk=[ch, nch])
    # whole operations with two tasks of one Parallel call interleaved (everything the tasks share
    # - accumulators, buffers, the estimator - stays shared): (site, call index)
    for site, ncalls in (("tsf_fit_proba", 3), ("tsfr", 2), ("ens_fit", 1), ("stack_fit", 2)):
        for cno in range(ncalls):
            for pr in pairs:
                for first in (0, 1):
                    yield dict(kind="icall", site=site, call=cno, pair=list(pr), first=first)
    # bytecode-level hand-over points (read-modify-write inside one statement) for the forest's
    # predict_proba / predict calls and the ensemble fit, in 6 slices each
    for site, cno in (("tsf_proba_only", 0), ("tsfr_predict_only", 0), ("ens_fit", 0)):
        for first in (0, 1):
            for ch in range(6):
                yield dict(kind="icall", site=site, call=cno, pair=[0, 1], first=first,
                           gran="opcode", chunk=[ch, 6])
    if tier != "quick":
        for site in big:  # every single-preemption schedule, in 16 slices
            for pr in pairs[:2]:
                for first in (0, 1):
                    for ch in range(16):
                        yield dict(kind="interleave", site=site, pair=list(pr), first=first,
                                   bound=1, chunk=[ch, 16])


# ------------------------------------------------------------------------------ helpers
def _eq(a, b, rtol=1e-10):
    """structural equality of apply outputs"""
    if isinstance(a, tuple) and isinstance(b, tuple):
        return len(a) == len(b) and all(_eq(x, y) for x, y in zip(a, b))
    if isinstance(a, pd.DataFrame) and isinstance(b, pd.DataFrame):
        if a.shape != b.shape or list(a.columns) != list(b.columns) or \
                list(a.index) != list(b.index):
            return False
        for c in range(a.shape[1]):
            for r in range(a.shape[0]):
                if not _eq(a.iat[r, c], b.iat[r, c]):
                    return False
        return True
    if isinstance(a, pd.Series) and isinstance(b, pd.Series):
        if len(a) != len(b) or list(a.index) != list(b.index):
            return False
        if a.dtype == object:
            return all(_eq(x, y) for x, y in zip(a.values, b.values))
        return close(np.asarray(a, float), np.asarray(b, float), rtol=rtol)
    if isinstance(a, np.ndarray) or isinstance(b, np.ndarray):
        a, b = np.asarray(a), np.asarray(b)
        if a.shape != b.shape:
            return False
        if a.dtype.kind in "fiub" and b.dtype.kind in "fiub":
            return close(a.astype(float), b.astype(float), rtol=rtol)
        return bool(np.array_equal(a, b))
    if isinstance(a, float) and isinstance(b, float):
        return close([a], [b], rtol=rtol)
    return type(a) is type(b) and a == b


def _seqs(menu, tier_quick=True):
    ops = list(range(len(menu)))
    for d in (1, 2, 3):
        for s in itertools.product(ops, repeat=d):
            if d == 3 and tier_quick and s[2] != 0 and len(menu) > 2:
                continue
            yield s


def _apply_case(res, tag, est_fitted, menu, args_builders, other_fit=None):
    """menu: list of (name, fn(est, args)); args_builders: name -> fresh args factory;
    other_fit: thunk that builds ANOTHER estimator with the same parameters and fits it on other
    data (must not influence this one: module-level / class-level shared state)"""
    if other_fit is not None:
        menu = list(menu) + [("other-instance.fit(other data)", lambda e, a: (other_fit(), 0)[1])]
    refs = {}
    for i, (name, fn) in enumerate(menu):
        tw = copy.deepcopy(est_fitted)
        refs[i] = call(fn, tw, args_builders())
    # a pickled and restored copy answers every call like the original
    pk = call(lambda: pickle.loads(pickle.dumps(est_fitted)))
    if not pk.ok:
        res.outcome("unpicklable:" + tag.split(":")[0])
    else:
        for i, (name, fn) in enumerate(menu):
            if name.startswith("other-instance"):
                continue
            o = call(fn, copy.deepcopy(pk.value), args_builders())
            res.transitions += 1
            r = refs[i]
            if o.ok != r.ok or (o.ok and not _eq(o.value, r.value)):
                res.violate("%s:pickle:%s" % (tag, name), "a pickled and restored copy of the "
                            "fitted estimator answers differently",
                            expected=r.value if r.ok else r.brief(),
                            observed=o.value if o.ok else o.brief())
                return
    for seq in _seqs(menu):
        est = copy.deepcopy(est_fitted)
        res.states += 1
        for step, i in enumerate(seq):
            name, fn = menu[i]
            args = args_builders()
            before = canon.digest(args)
            o = call(fn, est, args)
            res.transitions += 1
            after = canon.digest(args)
            H = dict(sequence=[menu[j][0] for j in seq], step=step)
            if before != after:
                res.violate("%s:mutates-input:%s" % (tag, name), "an apply-type call modified "
                            "the caller's data", observed=H)
                return
            r = refs[i]
            if o.ok != r.ok or (not o.ok and type(o.exc) is not type(r.exc)):
                res.violate("%s:impure:%s" % (tag, name), "a call behaves differently after "
                            "other apply-type calls than when made first",
                            expected=r.brief() if not r.ok else "result",
                            observed=dict(outcome=o.brief(), **H))
                return
            if o.ok and not _eq(o.value, r.value):
                res.violate("%s:impure:%s" % (tag, name), "repeating / interleaving apply-type "
                            "calls changes the result", expected=r.value,
                            observed=dict(result=o.value, **H))
                return
    res.nt(tag)


def run_case(case):
    res = Result()
    k = case["kind"]
    if k == "apply":
        fam = case["fam"]
        {"s": _apply_s, "p": _apply_p, "f": _apply_f, "c": _apply_c}[fam](case, res)
    elif k == "twin":
        _twin(case, res)
    elif k in ("refit", "reparam"):
        _refit(case, res)
    elif k == "icall":
        _icall(case, res)
    elif k == "order":
        _order(case, res)
    else:
        _interleave(case, res)
    return res


def _fit_pure(res, tag, est, fit_args):
    """fit on copies held by the 'caller'; the caller's objects must be unchanged"""
    before = canon.digest(fit_args)
    o = call(lambda: est.fit(*fit_args))
    after = canon.digest(fit_args)
    if not o.ok:
        res.violate(tag + ":fit:raises", "fit raised", observed=o.brief())
        return False
    if before != after:
        res.violate(tag + ":fit:mutates-input", "fit modified the caller's data")
        return False
    return True


def _apply_s(case, res):
    spec = S_PROGRAMS[case["prog"]]
    tag = "s:" + spec[0] + (":" + str(spec[1]) if spec[0].startswith("imputer") else "")
    df = spec[0].endswith("-df")
    base = spec[0].replace("-df", "")
    z = _series(nan=base == "imputer", outlier=base == "hampel")
    if df:
        z = pd.DataFrame({"a": z, "b": z * 2.0 + 1.0})
    z2 = z.iloc[6:18]
    est = _build_s(spec)
    if not _fit_pure(res, tag, est, (z.copy(),)):
        return
    z3 = z.iloc[7:19]  # same length as z2, other offset (other phase / other values)
    menu = [("transform(train)", lambda e, a: e.transform(a[0])),
            ("transform(stretch)", lambda e, a: e.transform(a[1])),
            ("transform(stretch+1)", lambda e, a: e.transform(a[3]))]
    if hasattr(est, "inverse_transform") and base not in ("hampel", "imputer", "cos", "acf", "pacf"):
        menu.append(("inverse(transform)", lambda e, a: e.inverse_transform(a[2])))
    zt = call(lambda: copy.deepcopy(est).transform(z.copy()))
    res.outcome("apply:s:" + base)
    zo = (z * 1.7 + 3.0).iloc[2:20]
    _apply_case(res, tag, est, menu,
                lambda: (z.copy(), z2.copy(), zt.value.copy() if zt.ok else None, z3.copy()),
                other_fit=lambda: _build_s(spec).fit(zo.copy()))


def _apply_p(case, res):
    name, cont = case["prog"], case["cont"]
    tag = "p:%s:%s" % (name, cont)
    ncol = 2 if name in ("concat", "pad", "trunc", "interp", "tab", "dslope", "plateau",
                         "s2s-cos", "s2p-mean") else 1
    Pa, Pb, Pc = _panel(10, ncol), _panel(6, ncol, shift=0.7), _panel(6, ncol, shift=1.9)
    if name == "plateau-nan":
        for P_ in (Pa, Pb, Pc):
            P_[:, :, 3:6] = np.nan
            P_[::2, :, 10:12] = np.nan
    mk = (lambda P: _nested(P)) if cont == "nested" else (lambda P: P.copy())
    est = _build_p(name)
    yv = np.array([0, 1] * 5)
    if not _fit_pure(res, tag, est, (mk(Pa), yv.copy())):
        return
    menu = [("transform(a)", lambda e, a: e.transform(a[0])),
            ("transform(b)", lambda e, a: e.transform(a[1])),
            ("transform(c~b)", lambda e, a: e.transform(a[2]))]
    res.outcome("apply:p:" + cont)
    _apply_case(res, tag, est, menu, lambda: (mk(Pa), mk(Pb), mk(Pc)),
                other_fit=lambda: _build_p(name).fit(mk(Pb * 1.3 + 0.2), np.array([0, 1] * 3)))


def _apply_f(case, res):
    spec = F_PROGRAMS[case["prog"]]
    tag = "f:" + spec[0] + (":" + str(spec[1]) if spec[0] in ("naive", "red", "ens", "poly",
                                                               "naive-nan") else "")
    y = _series(20)
    if spec[0] == "naive-nan":
        from sktime.forecasting.naive import NaiveForecaster

        # one missing value: in-sample forecasts whose window starts or ends on it raise, the
        # moving-cutoff pass is abandoned half way; later calls must not notice
        y.iloc[7] = np.nan
        est = NaiveForecaster(strategy=spec[1], window_length=spec[2]).fit(y.copy())
        menu = [("predict([1,2,3])", lambda e, a: e.predict([1, 2, 3])),
                ("predict(all in-sample)", lambda e, a: e.predict(list(range(-14, 1)))),
                ("predict([0])", lambda e, a: e.predict([0])),
                ("predict([-9,2])", lambda e, a: e.predict([-9, 2]))]
        res.outcome("apply:f:failing-calls")
        _apply_case(res, tag, est, menu, lambda: (y.copy(),))
        return
    req = fmenu.needs_fh_at_fit(spec)
    est = fmenu.build(spec)
    before = canon.digest(y)
    yy = y.copy()
    o = call(lambda: est.fit(yy, fh=[1, 2, 3] if req else None))
    if not o.ok:
        res.violate(tag + ":fit:raises", "fit raised", observed=o.brief())
        return
    if canon.digest(yy) != before:
        res.violate(tag + ":fit:mutates-input", "fit modified the caller's series")
        return
    if req:
        menu = [("predict()", lambda e, a: e.predict()),
                ("predict(same fh)", lambda e, a: e.predict([1, 2, 3]))]
    else:
        menu = [("predict([1])", lambda e, a: e.predict([1])),
                ("predict([1,2,3])", lambda e, a: e.predict([1, 2, 3])),
                ("predict([2,4])", lambda e, a: e.predict([2, 4]))]
        if spec[0] in ("naive", "poly") and not (spec[0] == "naive" and len(spec) > 2):
            menu.append(("predict([-1,1])", lambda e, a: e.predict([-1, 1])))
    if hasattr(est, "transform") and spec[0] == "ttf":
        menu.append(("transform(y)", lambda e, a: e.transform(a[0])))
    res.outcome("apply:f")
    yo = (_series(17, start=4) * 0.6 + 11.0)
    _apply_case(res, tag, est, menu, lambda: (y.copy(),),
                other_fit=lambda: fmenu.build(spec).fit(yo.copy(), fh=[1, 2, 3] if req else None))


def _cdata(name, cont, small=False):
    ncol = 2 if name in ("cens", "muse") else 1
    if small:
        Pa, Pb = _panel(8, ncol, 16), _panel(3, ncol, 16, shift=0.4)
        mk = (lambda P: _nested(P)) if cont == "nested" else (lambda P: P.copy())
        return Pa, Pb, mk, (np.arange(8.0) if name == "tsfr" else np.array([0, 1] * 4))
    Pa, Pb = _panel(12, ncol), _panel(5, ncol, shift=0.4)
    mk = (lambda P: _nested(P)) if cont == "nested" else (lambda P: P.copy())
    yv = np.arange(12.0) if name == "tsfr" else np.array([0, 1] * 6)
    return Pa, Pb, mk, yv


def _apply_c(case, res):
    name, cont = case["prog"], case["cont"]
    tag = "c:%s:%s" % (name, cont)
    Pa, Pb, mk, yv = _cdata(name, cont)
    est = _build_c(name)
    if not _fit_pure(res, tag, est, (mk(Pa), yv.copy())):
        return
    Pc = _panel(5, Pb.shape[1], shift=2.3)
    menu = [("predict(a)", lambda e, a: e.predict(a[0])),
            ("predict(b)", lambda e, a: e.predict(a[1]))]
    if name != "tsfr":
        menu.insert(1, ("predict_proba(b)", lambda e, a: e.predict_proba(a[1])))
        menu.append(("predict_proba(c~b)", lambda e, a: e.predict_proba(a[2])))
    else:
        menu.append(("predict(c~b)", lambda e, a: e.predict(a[2])))
    res.outcome("apply:c:" + cont)
    Po = _panel(Pa.shape[0], Pa.shape[1], shift=3.1) * 1.4
    _apply_case(res, tag, est, menu, lambda: (mk(Pa), mk(Pb), mk(Pc)),
                other_fit=lambda: _build_c(name).fit(mk(Po), yv[::-1].copy()))


def _refit_parts_all(name):
    """every runnable registered estimator class with the repository's fixture parameters"""
    from . import c04

    cls, base = c04._registry()[name]
    kind = c04._kind(cls)

    def fit_on(e, which):
        import joblib

        with joblib.parallel_backend("threading"):
            if kind in ("forecaster", "series"):
                t = np.arange(20.0 if which == 1 else 26.0)
                y = pd.Series((20 + 1.5 * t + np.array([3.0, -1, 0.5, 1.5])[t.astype(int) % 4]) *
                              (1.0 if which == 1 else 1.6))
                return e.fit(y, fh=[1, 2]) if kind == "forecaster" else e.fit(y)
            n = 12 if which == 1 else 10
            r = np.arange(n * 24).reshape(n, 1, 24).astype(float)
            P = np.sin(r / (3.0 if which == 1 else 2.2)) + (np.arange(n) % 2)[:, None, None] * 1.5
            yy = np.arange(float(n)) if kind == "regressor" else (
                np.array([0, 1, 2] * 4) if which == 1 else np.array([1, 0] * 5))
            return e.fit(_nested(P + 0.01 * r), yy)

    def app(e):
        out = []
        for m, thunk in c04._apply_calls(e, kind):
            if m in ("update", "update_predict", "update_predict_single"):
                continue
            o = call(thunk)
            out.append((m, o.kind) if not o.ok else o.value)
        if hasattr(e, "classes_"):
            out.append(list(e.classes_))
        return tuple(out)

    def build():
        e = cls(**base)
        # reproducibility is promised for a fixed random_state: fix it where the fixture leaves
        # it open (otherwise random tie-breaking makes refit and fresh differ by chance)
        if "random_state" in e.get_params(deep=False) and e.get_params()["random_state"] is None:
            e.set_params(random_state=0)
        return e

    return (build, lambda e: fit_on(e, 1), lambda e: fit_on(e, 2), app)


def _refit_parts(fam, prog):
    """-> (build(), fit1(est), fit2(est), apply(est) -> tuple of outputs)"""
    if fam == "all":
        return _refit_parts_all(prog)
    if fam == "s":
        base = prog[0].replace("-df", "")
        df = prog[0].endswith("-df")

        def data(n, scale, start):
            z = _series(n, start=start, nan=base == "imputer", outlier=base == "hampel") * scale
            return pd.DataFrame({"a": z, "b": z * 2.0 + 1.0}) if df else z

        zA, zB = data(20, 1.0, 0), data(26, 1.7, 3)
        return (lambda: _build_s(prog), lambda e: e.fit(zA.copy()), lambda e: e.fit(zB.copy()),
                lambda e: (e.transform(zB.copy()), e.transform(zB.iloc[5:17].copy())))
    if fam == "p":
        ncol = 2 if prog in ("concat", "pad", "trunc", "interp", "tab", "dslope", "plateau",
                             "s2s-cos", "s2p-mean") else 1
        PA, PB, PC = _panel(6, ncol), _panel(9, ncol, shift=0.9) * 1.3, _panel(4, ncol, shift=2.0)
        return (lambda: _build_p(prog), lambda e: e.fit(_nested(PA), np.array([0, 1] * 3)),
                lambda e: e.fit(_nested(PB), np.array([0, 1, 1] * 3)),
                lambda e: (e.transform(_nested(PC)),))
    if fam == "f":
        req = fmenu.needs_fh_at_fit(prog)
        yA, yB = _series(18, start=2) * 0.7 + 5.0, _series(23, start=0)
        fhA, fhB = ([1, 2], [1, 2, 3]) if req else (None, None)
        return (lambda: fmenu.build(prog), lambda e: e.fit(yA.copy(), fh=fhA),
                lambda e: e.fit(yB.copy(), fh=fhB),
                lambda e: (e.predict() if req else e.predict([1, 2, 4]), e.cutoff))
    ncol = 2 if prog in ("cens", "muse") else 1
    PA, PB, PC = _panel(12, ncol), _panel(10, ncol, shift=0.8) * 1.2, _panel(5, ncol, shift=2.1)
    if prog == "tsfr":
        yA, yB = np.arange(12.0), np.arange(10.0)[::-1] * 0.5
    else:
        yA, yB = np.array(["a", "b", "c"] * 4), np.array(["c", "b"] * 5)  # other label set

    def app(e):
        out = [e.predict(_nested(PC))]
        if prog != "tsfr":
            out.append(e.predict_proba(_nested(PC)))
            out.append(list(e.classes_))
        return tuple(out)

    return (lambda: _build_c(prog), lambda e: e.fit(_nested(PA), yA.copy()),
            lambda e: e.fit(_nested(PB), yB.copy()), app)


def _refit(case, res):
    import joblib

    if case["kind"] == "refit":
        fam, prog, newp = case["fam"], case["prog"], None
        if fam in ("s", "f"):
            prog = (S_PROGRAMS if fam == "s" else F_PROGRAMS)[prog]
    else:
        fam, prog, newp = REPARAM[case["which"]]
    tag = "%s:%s:%s" % (case["kind"], fam, prog if isinstance(prog, str) else prog[0] + (
        ":" + str(prog[1]) if len(prog) > 1 and not isinstance(prog[1], list) else ""))
    build, fit1, fit2, app = _refit_parts(fam, prog)
    with joblib.parallel_backend("threading"):
        def used():
            e = build()
            fit1(e)
            app_try = call(app, e)  # apply once in between: leftovers of apply count as well
            del app_try
            if newp:
                e.set_params(**newp)
            fit2(e)
            return app(e)

        def fresh():
            e = build()
            if newp:
                e.set_params(**newp)
            fit2(e)
            return app(e)

        b = call(fresh)
        if not b.ok:
            res.outcome("refit:fresh-raises")
            return
        b2 = call(fresh)
        if not b2.ok or not _eq(b.value, b2.value):
            res.outcome("refit:nondeterministic")
            return
        a = call(used)
    res.transitions += 3
    res.states += 2
    res.nt(tag)
    res.outcome(case["kind"] + ":" + fam)
    if not a.ok:
        res.violate(tag + ":raises", "an estimator that was fitted before cannot be refitted "
                    "where a fresh one can", observed=a.brief())
    elif not _eq(a.value, b.value):
        res.violate(tag + ":stale-state", "a refitted estimator differs from a fresh one with the "
                    "same parameters fitted on the same data", expected=b.value, observed=a.value)


def _twin(case, res):
    import joblib

    name, rs = case["prog"], case["rs"]
    tag = "twin:" + name

    def results(n_jobs=None, pick=False):
        if name in ("rseg", "rife"):
            P = _panel(8, 1)
            e = _build_p(name, rs).fit(_nested(P))
            if pick:
                e = pickle.loads(pickle.dumps(e))
            return (e.transform(_nested(P)),)
        if name == "imputer-random":
            from sktime.transformations.series.impute import Imputer

            z = _series(nan=True)
            e = Imputer(method="random", random_state=rs).fit(z.copy())
            if pick:
                e = pickle.loads(pickle.dumps(e))
            return (e.transform(z.copy()),)
        Pa, Pb, mk, yv = _cdata(name, "nested")
        with joblib.parallel_backend("threading"):
            e = _build_c(name, rs, n_jobs).fit(mk(Pa), yv.copy())
            if pick:
                e = pickle.loads(pickle.dumps(e))
            out = [e.predict(mk(Pb))]
            if name != "tsfr":
                out.append(e.predict_proba(mk(Pb)))
        return tuple(out)

    ref = call(results)
    if not ref.ok:
        res.violate(tag + ":raises", "fit/apply raised", observed=ref.brief())
        return
    res.nt((name, rs))
    res.outcome("twin")
    again = call(results)
    res.transitions += 2
    if not again.ok or not _eq(again.value, ref.value):
        res.violate(tag + ":irreproducible", "two estimators with equal parameters and "
                    "random_state give different results", expected=ref.value,
                    observed=again.value if again.ok else again.brief())
        return
    pk = call(results, None, True)
    res.transitions += 1
    if not pk.ok or not _eq(pk.value, ref.value):
        res.violate(tag + ":pickle", "a pickled and restored fitted estimator gives different "
                    "results", expected=ref.value, observed=pk.value if pk.ok else pk.brief())
        return
    has_nj = name in ("tsf", "tsfr", "rise", "stsf", "iboss", "boss", "cboss")
    if has_nj:
        for nj in (1, 2, 3, 4):
            o = call(results, nj)
            res.transitions += 1
            if not o.ok or not _eq(o.value, ref.value):
                res.violate("%s:n_jobs" % tag, "result depends on n_jobs", expected=ref.value,
                            observed=dict(n_jobs=nj, result=o.value if o.ok else o.brief()))
                return


# ------------------------------------------------------------------------- scheduling sites
def _site_thunk(site, nj=3):
    """returns a thunk that executes the site's Parallel calls (n_jobs>1 requested) and returns
    its results; the same thunk with the default backend gives the sequential reference"""
    from sktime.forecasting.compose import EnsembleForecaster, StackingForecaster
    from sktime.forecasting.ets import AutoETS
    from sktime.forecasting.model_selection import ForecastingGridSearchCV, SlidingWindowSplitter
    from sktime.forecasting.naive import NaiveForecaster
    from sktime.forecasting.trend import PolynomialTrendForecaster
    from sktime.transformations.panel.dictionary_based import SFA
    from sktime.transformations.panel.summarize import FittedParamExtractor
    from .. import doubles

    y = _series(20)
    members = [("a", NaiveForecaster("last")), ("b", NaiveForecaster("drift")),
               ("c", PolynomialTrendForecaster(degree=1)), ("d", NaiveForecaster("mean"))]
    if site == "ens_fit":
        return lambda: EnsembleForecaster(members, n_jobs=nj).fit(y.copy()).predict([1, 2, 3])
    if site == "stack_fit":
        return lambda: StackingForecaster(members[:3], final_regressor=doubles.LinearExact(),
                                          n_jobs=nj).fit(y.copy(), fh=[1, 2]).predict()
    if site == "grid":
        cv = SlidingWindowSplitter(fh=[1], window_length=8, step_length=3)
        return lambda: (lambda t: (t.best_params_, list(t.cv_results_["mean_test_sMAPE"])
                                   if "mean_test_sMAPE" in t.cv_results_ else
                                   t.cv_results_.filter(like="mean_test").values.tolist(),
                                   t.predict([1, 2])))(
            ForecastingGridSearchCV(NaiveForecaster(), cv=cv, refit=True, n_jobs=nj,
                                    param_grid={"strategy": ["last", "mean", "drift"]}
                                    ).fit(y.copy()))
    if site == "ets_auto":
        return lambda: AutoETS(auto=True, sp=1, n_jobs=nj, additive_only=True).fit(
            y.copy()).predict([1, 2])
    if site == "sfa":
        P = _panel(8, 1)
        return lambda: SFA(word_length=4, alphabet_size=3, window_size=8, n_jobs=nj).fit(
            _nested(P), np.array([0, 1] * 4)).transform(_nested(P))
    if site == "fpe":
        from sktime.forecasting.exp_smoothing import ExponentialSmoothing

        P = np.abs(_panel(4, 1)) + 1.0
        return lambda: FittedParamExtractor(ExponentialSmoothing(), ["initial_level"],
                                            n_jobs=nj).fit(_nested(P)).transform(_nested(P))
    if site in ("tsf_proba_only", "tsfr_predict_only"):
        import joblib

        nm = "tsf" if site.startswith("tsf_") else "tsfr"
        Pa, Pb, mk, yv = _cdata(nm, "nested")
        with joblib.parallel_backend("threading"):
            fitted = _build_c(nm, 0, 1).fit(mk(Pa), yv.copy())
        fitted.set_params(n_jobs=nj)
        if nm == "tsf":
            return lambda: fitted.predict_proba(mk(Pb))
        return lambda: fitted.predict(mk(Pb))
    if site in ("iboss_ties", "boss_ties"):
        # exact nearest-neighbour ties: the same series occurs in the training panel under
        # different labels, and several test instances equal it (tie-breaking draws random numbers)
        P = _panel(10, 1)
        P[1] = P[0]
        P[3] = P[2]
        yv = np.array([0, 1] * 5)
        T = np.stack([P[0], P[2], P[0], P[2], P[0], P[4]])
        nm = "iboss" if site == "iboss_ties" else "boss"

        def run_ties():
            e = _build_c(nm, 0, nj).fit(_nested(P), yv.copy())
            return (e.predict(_nested(T)), e.predict_proba(_nested(T)))

        return run_ties
    name = {"tsf_fit_proba": "tsf", "tsfr": "tsfr", "stsf": "stsf", "rise": "rise", "boss": "boss",
            "cboss": "cboss"}[site]
    Pa, Pb, mk, yv = _cdata(name, "nested")

    def run():
        e = _build_c(name, 0, nj).fit(mk(Pa), yv.copy())
        out = [e.predict(mk(Pb))]
        if name != "tsfr":
            out.append(e.predict_proba(mk(Pb)))
        return tuple(out)

    return run


def _order(case, res):
    site = case["site"]
    tag = "order:" + site
    thunk = _site_thunk(site)
    ref = call(_site_thunk(site, 1))  # n_jobs=1: joblib's sequential backend
    if not ref.ok:
        res.violate(tag + ":raises", "site raised sequentially", observed=ref.brief())
        return
    n = 0
    sizes = None
    for schedule, calls, (ok, val) in sched.explore_orders(thunk, deviations=case["dev"],
                                                           only_call=case.get("call"),
                                                           pair_first=case.get("pair_first"),
                                                           pair_limit=case.get("pair_limit")):
        n += 1
        res.transitions += 1
        sizes = calls if sizes is None else sizes
        if not ok:
            res.violate(tag + ":raises", "a task order makes the call raise",
                        observed=dict(schedule={str(k): v for k, v in schedule.items()},
                                      error=repr(val)[:300]))
            return
        if not _eq(val, ref.value):
            res.violate(tag + ":order-dependent", "the result depends on the order in which the "
                        "parallel tasks run", expected=ref.value,
                        observed=dict(schedule={str(k): v for k, v in schedule.items()},
                                      result=val))
            return
    res.states += n
    res.evals = n
    if sizes and max(sizes) > 1:
        res.nt((site, tuple(sizes)))
    lim = case.get("lim", 128)
    if lim > 6 and sizes and sum(1 for k_ in sizes if k_ > 1) > lim:
        # (the quick tier's bound - the first 6 multi-task calls of a site - is part of RULE)
        res.notes.append("CAPPED: order %s: %d multi-task calls, deviations explored in the first "
                         "%d" % (site, sum(1 for k_ in sizes if k_ > 1), lim))
    res.outcome("order:calls=%s" % (sizes,))


def _icall(case, res):
    site = case["site"]
    tag = "icall:%s:call%d" % (site, case["call"])
    thunk = _site_thunk(site)
    ref = call(_site_thunk(site, 1))
    if not ref.ok:
        res.violate(tag + ":raises", "site raised sequentially", observed=ref.brief())
        return
    n = 0
    counts = None
    idx, nch = case.get("chunk", [0, 1])
    for switches, (ok, val), counts in sched.explore_call_interleavings(
            thunk, case["call"], tuple(case["pair"]), case["first"], idx=idx, nchunks=nch,
            cap=1500, granularity=case.get("gran", "line")):
        n += 1
        res.transitions += 1
        if not ok:
            res.violate(tag + ":raises", "the operation raises under an interleaving of two of its "
                        "parallel tasks", observed=dict(switches=switches, error=repr(val)[:300]))
            return
        if not _eq(val, ref.value):
            res.violate(tag + ":schedule-dependent", "the result of the whole operation depends on "
                        "how two of its parallel tasks interleave", expected=ref.value,
                        observed=dict(switches=switches, result=val))
            return
    res.states += n
    res.evals = n
    if counts is not None:
        res.nt((site, case["call"], tuple(case["pair"]), case["first"], case.get("gran"), idx))
        mine = len(range(1 + idx, counts[case["first"]] + 1, nch)) + 1
        if n < mine:
            res.notes.append("CAPPED: icall %s: %d of %d schedules" % (site, n, mine))
    res.outcome("icall:%s:points=%s" % (site, counts))


def _tasks_for(site):
    """captured (deep-copied) tasks of one Parallel call of a site + index of that call"""
    name = site.split("_")[0]
    which = {"tsf_fit": 0, "tsf_proba": 1, "tsfr_predict": 1, "stsf_fit": 0, "rise_fit": 0,
             "ens_fit": 0, "boss_predict": -1}[site]
    if site == "ens_fit":
        thunk = _site_thunk("ens_fit")
    else:
        Pa, Pb, mk, yv = _cdata("tsfr" if name == "tsfr" else name, "nested",
                                small=name in ("stsf", "rise", "boss"))

        def thunk():
            e = _build_c("tsfr" if name == "tsfr" else name, 0, 3).fit(mk(Pa), yv.copy())
            if site.endswith("proba"):
                return e.predict_proba(mk(Pb))
            if site.endswith("predict"):
                return e.predict(mk(Pb))
            return e
    captured = sched.capture_tasks(thunk)
    calls = [c for c in captured if len(c) >= 2]
    if not calls:
        return None
    return calls[which] if which < len(calls) else calls[-1]


def _interleave(case, res):
    site, (i, j) = case["site"], case["pair"]
    tag = "interleave:" + site
    tasks = call(_tasks_for, site)
    if not tasks.ok or tasks.value is None or len(tasks.value) <= max(i, j):
        res.outcome("interleave:no-tasks")
        return
    ti, tj = tasks.value[i], tasks.value[j]

    def run_alone(which):
        # copy the pair TOGETHER so that objects shared between the two tasks (a common scratch
        # buffer, a common estimator) stay shared, exactly as in the real Parallel call
        pair = copy.deepcopy((ti, tj))
        t = pair[which]
        return t[0](*t[1], **t[2])

    ref = [call(run_alone, 0), call(run_alone, 1)]
    if not ref[0].ok or not ref[1].ok:
        res.outcome("interleave:task-raises")
        return

    def mk():
        a, b = copy.deepcopy((ti, tj))
        return [lambda: a[0](*a[1], **a[2]), lambda: b[0](*b[1], **b[2])]

    il = sched.Interleaver()
    n = 0
    first = case["first"]
    idx, nch = case.get("chunk", [0, 1])
    _, counts = il.counts(mk)
    cap = 1500 if case["bound"] == 1 else 4000
    total = 0
    for (kind, _f, sw), results in il.explore_slice(mk, first, counts, bound=case["bound"],
                                                    idx=idx, nchunks=nch, cap=cap):
        n += 1
        res.transitions += 1
        for t in (0, 1):
            ok, val = results[t]
            if not ok:
                res.violate(tag + ":raises", "a task raises under an interleaving",
                            observed=dict(schedule=[kind, first, sw], error=repr(val)[:300]))
                return
            if not _eq_task(val, ref[t].value):
                res.violate(tag + ":schedule-dependent", "a task's result depends on how it is "
                            "interleaved with another task", expected=_summ(ref[t].value),
                            observed=dict(schedule=[kind, first, sw], task=t, result=_summ(val)))
                return
    res.states += n
    res.evals = n
    res.nt((site, i, j, first, idx))
    na, nb = counts[first], counts[1 - first]
    mine = len(range(1 + idx, na + 1, nch))
    total = mine * (1 + (nb if case["bound"] >= 2 else 0)) + (1 if idx == 0 else 0)
    if n < total:
        res.notes.append("CAPPED: interleave %s pair %s first %d chunk %d/%d: %d of %d schedules "
                         "with <=%d preemptions explored" % (site, case["pair"], first, idx, nch,
                                                             n, total, case["bound"]))
    res.outcome("interleave:%s:points=%s" % (site, counts))


def _summ(v):
    if isinstance(v, (np.ndarray, pd.Series, pd.DataFrame, float, int, list, tuple)):
        return v
    return canon.digest(v)


def _eq_task(a, b):
    if isinstance(a, (np.ndarray, pd.Series, pd.DataFrame, float, int)):
        return _eq(a, b)
    if isinstance(a, (list, tuple)) and isinstance(b, (list, tuple)) and len(a) == len(b):
        return all(_eq_task(x, y) for x, y in zip(a, b))
    return canon.digest(a) == canon.digest(b)
