"""C15 - panel container conversions (E2: explicit-state exploration of the conversion graph).

States are (panel, representation) pairs, transitions are the from_*_to_* functions of
sktime/utils/data_processing.py together with their name arguments.  From a harness-built start
state every path of bounded length is executed on the real code; after every transition a
harness-side decoder (plain loops, one per representation) maps the produced container back to
the canonical panel (values[i][c][t], column names) and compares it with a small model that
only tracks which original variable sits where and which names the container must carry.
"""
import hashlib
import itertools

import numpy as np
import pandas as pd

from ..core import Result, call

ID = "C15"
LEVEL = "model_checking"
ANCHORS = [
    "sktime/utils/data_processing.py",
    "sktime/utils/validation/panel.py",
    "sktime/utils/_testing/panel.py",
]
RULE = (
    "kind=graph: one case per (panel, start representation); panels = n_instances 1-3 x "
    "n_columns 1-3 x n_timepoints 2-4 (thorough: up to 4 x 4 x 5) x column names {default var_i, "
    "unsorted strings ['b','a','c'], unsorted integers [2,0,1]}, tagged values "
    "v[i,c,t]=100i+10c+t+0.5; start representations NS (nested, Series cells), NA (nested, "
    "array cells), A3 (3-D array), MI (multi-index frame), LG (long table), T2/T2F (2-D "
    "array/frame, univariate only); from each start EVERY path of <=3 (thorough <=4) "
    "transitions is executed (no sampling, no pruning except below a violating edge); "
    "transitions = the 11 from_*_to_* functions x their name arguments (defaults / explicit "
    "level, column and variable names) x cells_as_numpy / return_numpy. states = distinct "
    "(panel, representation, level/column-name metadata, canonical digest) per BFS; "
    "transitions = executed conversion calls. The value family (4 exactly representable "
    "families) and the row order of the harness-built long table (3 orders) are rotated by "
    "case index + VERIF_SEED; the structure of the space is seed independent. kind=pred: every "
    "assignment of cell kinds {float,int,str,None,Series,ndarray} to frames of <=2x2 cells and "
    "of {float,Series,ndarray} to 3x2/2x3/1x3/3x1 frames + non-frame inputs. kind=checkx: "
    "panel x container x coerce flags x enforce_univariate. kind=series2d: nested pd.Series "
    "input of from_nested_to_2d_array. non-trivial = a path of length>=1 whose end state was "
    "decoded and compared; distinct by (panel, start, path)."
)
ASSUMPTIONS = [
    "from_long_to_nested(column_names=None) and from_3d_numpy_to_nested/from_3d_numpy_to_"
    "multi_index(column_names=None) document an optional list of names; without it they assign "
    "the default names var_0.. (accepted as documented name-dropping edges even when the long "
    "table's identifier column still carries the names); names must survive only on edges "
    "that are given the names or whose input and output both carry them",
    "from_long_to_nested(column_names=L) assigns L positionally to the variables in identifier "
    "order (statement: the long table orders variables by their identifier); the harness "
    "passes the names in that order",
    "from_2d_array_to_nested documents a single-column result: the 2-D table has outgoing "
    "edges only for univariate panels; with columns=None the single column is labelled 0",
    "the long table is a relation: its decoder orders variables by identifier and ignores row "
    "order and column order; the multi-index frame is decoded by labels",
    "in the graph exploration instances and time points are labelled 0..n-1; non-default "
    "instance labels (descending ints, unsorted strings, shuffled) are covered by kind=instlabels "
    "on the label-carrying paths nested<->multi-index->3d/nested and nested->long; multi-index "
    "panels that are selections (instances x time points) of a bigger panel, which keep the "
    "parent's unused level entries, by kind=misubset",
    "dtype of the produced containers is not judged, only numeric equality of every value",
    "conversions of frames mixing nested and primitive columns are outside the statement; "
    "only the predicates are judged on them",
    "list-valued cells are not used as representatives (the statement says series-valued)",
]

NAMEKINDS = ["default", "str", "int"]
STARTS = ["NS", "NA", "A3", "MI", "LG", "T2", "T2F"]
NFAM = 4
NORD = 3


# --------------------------------------------------------------------------- enumeration
def _bounds(tier):
    if tier == "thorough":
        return dict(I=4, C=4, T=5, depth=4)
    return dict(I=3, C=3, T=4, depth=3)


def gen_cases(tier, seed):
    b = _bounds(tier)
    k = 0
    shapes = sorted(itertools.product(range(1, b["I"] + 1), range(1, b["C"] + 1),
                                      range(2, b["T"] + 1)),
                    key=lambda s: (s[0] * s[1] * s[2], s))
    # predicates first (cheap, simplest)
    for shape, kinds in PRED_SPACES:
        for first in kinds:
            yield dict(kind="pred", rows=shape[0], cols=shape[1], kinds=kinds, first=first)
    yield dict(kind="pred_other")
    for (I, C, T) in shapes:
        for nk in NAMEKINDS:
            yield dict(kind="checkx", I=I, C=C, T=T, names=nk, fam=(k + seed) % NFAM)
            k += 1
        if C == 1:
            yield dict(kind="series2d", I=I, T=T, fam=(k + seed) % NFAM)
    for (I, C, T) in shapes:
        if I >= 2 and T <= 3:
            for lk in sorted(INSTLABELS):
                for pth in INSTPATHS:
                    yield dict(kind="instlabels", I=I, C=C, T=T, labels=lk, path=pth,
                               fam=(k + seed) % NFAM)
    # more than ten variables with integer identifiers (10 sorts before 2 as text), and integer
    # panels beyond 2**53 (not representable in float64)
    for C in (11, 12):
        for I in (1, 2):
            yield dict(kind="manyvars", I=I, C=C, T=2, fam=(k + seed) % NFAM)
            k += 1
    for C in (1, 2):
        for cellk in ("S", "A"):
            yield dict(kind="bigint", I=2, C=C, T=3, cell=cellk)
    # multi-index panels that are SELECTIONS of a bigger panel (pandas keeps the unused level
    # entries of the parent): every non-empty subset of 3 instances x 3 time selections
    for C in (1, 2):
        for T in (2, 3):
            for sel in ([0], [1], [2], [0, 1], [0, 2], [1, 2], [0, 1, 2]):
                for tsel in ("all", "head", "tail"):
                    yield dict(kind="misubset", C=C, T=T, sel=sel, tsel=tsel,
                               fam=(k + seed) % NFAM)
                    k += 1
    for (I, C, T) in shapes:
        for nk in NAMEKINDS:
            for st in STARTS:
                if st in ("T2", "T2F") and C > 1:
                    continue
                yield dict(kind="graph", I=I, C=C, T=T, names=nk, start=st, depth=b["depth"],
                           fam=(k + seed) % NFAM, order=(k // NFAM + seed) % NORD)
                k += 1


PRED_SPACES = [
    ((1, 1), "fisnSA"), ((1, 2), "fisnSA"), ((2, 1), "fisnSA"), ((2, 2), "fisnSA"),
    ((1, 3), "fSA"), ((3, 1), "fSA"), ((2, 3), "fSA"), ((3, 2), "fSA"),
]


# --------------------------------------------------------------------------- panels
def _value(i, c, t, fam):
    base = 100 * i + 10 * c + t
    if fam == 0:
        return base + 0.5
    if fam == 1:
        return float(base)  # integral floats, contains 0.0
    if fam == 2:
        return -(base + 0.25)
    return (base + 0.5) * 0.125


def _vals(I, C, T, fam):
    return [[[_value(i, c, t, fam) for t in range(T)] for c in range(C)] for i in range(I)]


def _names(kind, C):
    if kind == "default":
        return ["var_%d" % c for c in range(C)]
    if kind == "str":
        return ["b", "a", "c", "e", "d"][:C]
    return [2, 0, 1, 4, 3][:C]


def _obj_col(cells):
    a = np.empty(len(cells), dtype=object)
    for i, c in enumerate(cells):
        a[i] = c
    return a


def _build(rep, vals, names, meta, order=0):
    """harness-side constructors (never call the code under test)"""
    I, C, T = len(vals), len(vals[0]), len(vals[0][0])
    if rep in ("NS", "NA"):
        cols = {}
        for c in range(C):
            if rep == "NS":
                cells = [pd.Series([vals[i][c][t] for t in range(T)], index=pd.RangeIndex(T))
                         for i in range(I)]
            else:
                cells = [np.array([vals[i][c][t] for t in range(T)], dtype=float)
                         for i in range(I)]
            cols[names[c]] = _obj_col(cells)
        return pd.DataFrame(cols, index=pd.RangeIndex(I), columns=list(names))
    if rep == "A3":
        a = np.zeros((I, C, T))
        for i in range(I):
            for c in range(C):
                for t in range(T):
                    a[i, c, t] = vals[i][c][t]
        return a
    if rep == "MI":
        rows, idx = [], []
        for i in range(I):
            for t in range(T):
                idx.append((i, t))
                rows.append([vals[i][c][t] for c in range(C)])
        mi = pd.MultiIndex.from_tuples(idx, names=list(meta["levels"]))
        return pd.DataFrame(rows, index=mi, columns=list(names))
    if rep == "LG":
        ci, ct, cd, cv = meta["lcols"]
        recs = []
        if order == 0:  # dimension-major (what from_nested_to_long emits)
            it = ((i, c, t) for c in range(C) for i in range(I) for t in range(T))
        elif order == 1:  # instance-major (sktime's example long table)
            it = ((i, c, t) for i in range(I) for c in range(C) for t in range(T))
        else:  # reversed time-major
            it = ((i, c, t) for t in reversed(range(T)) for c in reversed(range(C))
                  for i in reversed(range(I)))
        for i, c, t in it:
            recs.append((i, t, names[c], vals[i][c][t]))
        df = pd.DataFrame({ci: [r[0] for r in recs], ct: [r[1] for r in recs],
                           cd: [r[2] for r in recs], cv: [r[3] for r in recs]})
        return df
    if rep in ("T2", "T2F"):
        a = np.zeros((I, C * T))
        for i in range(I):
            for c in range(C):
                for t in range(T):
                    a[i, c * T + t] = vals[i][c][t]
        if rep == "T2":
            return a
        return pd.DataFrame(a, index=pd.RangeIndex(I),
                            columns=["%s__%d" % (names[c], t) for c in range(C)
                                     for t in range(T)])
    raise ValueError(rep)


# --------------------------------------------------------------------------- decoders
class Bad(Exception):
    def __init__(self, aspect, msg):
        Exception.__init__(self, msg)
        self.aspect, self.msg = aspect, msg


def _norm(x):
    if isinstance(x, (np.integer,)):
        return int(x)
    if isinstance(x, (np.str_,)):
        return str(x)
    if isinstance(x, (np.floating,)):
        return float(x)
    return x


def _num(x):
    try:
        v = float(x)
    except Exception:
        raise Bad("structure", "non numeric value %r" % (x,))
    return v


def _labels_are_range(lab, n):
    lab = [_norm(v) for v in lab]
    return len(lab) == n and all(isinstance(v, int) and not isinstance(v, bool) and v == k
                                 for k, v in enumerate(lab))


def _decode(rep, X, I, C, T, meta):
    """-> (values[i][c][t], names or None); raises Bad(aspect, msg). No sktime code."""
    if rep in ("NS", "NA"):
        if not isinstance(X, pd.DataFrame):
            raise Bad("type", "expected DataFrame, got %s" % type(X).__name__)
        if X.shape != (I, C):
            raise Bad("shape", "frame shape %s != %s" % (X.shape, (I, C)))
        if not _labels_are_range(X.index, I):
            raise Bad("instance-index", "row labels %s" % list(X.index))
        want = pd.Series if rep == "NS" else np.ndarray
        vals = [[None] * C for _ in range(I)]
        for i in range(I):
            for c in range(C):
                cell = X.iat[i, c]
                if not isinstance(cell, want):
                    raise Bad("cell-type", "cell (%d,%d) is %s, expected %s" % (
                        i, c, type(cell).__name__, want.__name__))
                if cell.ndim != 1 or cell.shape[0] != T:
                    raise Bad("shape", "cell (%d,%d) has shape %s, expected (%d,)" % (
                        i, c, cell.shape, T))
                if rep == "NS":
                    if not _labels_are_range(cell.index, T):
                        raise Bad("time-index", "cell (%d,%d) time labels %s" % (
                            i, c, list(cell.index)))
                    vals[i][c] = [_num(cell.iloc[t]) for t in range(T)]
                else:
                    vals[i][c] = [_num(cell[t]) for t in range(T)]
        return vals, [_norm(n) for n in X.columns]
    if rep == "A3":
        if not isinstance(X, np.ndarray):
            raise Bad("type", "expected ndarray, got %s" % type(X).__name__)
        if X.shape != (I, C, T):
            raise Bad("shape", "array shape %s != %s" % (X.shape, (I, C, T)))
        return [[[_num(X[i, c, t]) for t in range(T)] for c in range(C)]
                for i in range(I)], None
    if rep == "MI":
        if not isinstance(X, pd.DataFrame):
            raise Bad("type", "expected DataFrame, got %s" % type(X).__name__)
        if X.index.nlevels != 2:
            raise Bad("structure", "index has %d levels" % X.index.nlevels)
        if X.shape != (I * T, C):
            raise Bad("shape", "frame shape %s != %s" % (X.shape, (I * T, C)))
        if list(X.index.names) != list(meta["levels"]):
            raise Bad("level-names", "levels %s != %s" % (list(X.index.names),
                                                          list(meta["levels"])))
        vals = [[[None] * T for _ in range(C)] for _ in range(I)]
        raw = X.to_numpy()
        for r, lab in enumerate(X.index):
            i, t = _norm(lab[0]), _norm(lab[1])
            if not (isinstance(i, int) and isinstance(t, int) and 0 <= i < I and 0 <= t < T):
                raise Bad("index-labels", "row label %r outside the panel" % (lab,))
            for c in range(C):
                if vals[i][c][t] is not None:
                    raise Bad("index-labels", "duplicate row label %r" % (lab,))
                vals[i][c][t] = _num(raw[r, c])
        return vals, [_norm(n) for n in X.columns]
    if rep == "LG":
        if not isinstance(X, pd.DataFrame):
            raise Bad("type", "expected DataFrame, got %s" % type(X).__name__)
        ci, ct, cd, cv = meta["lcols"]
        if sorted(map(str, X.columns)) != sorted(map(str, meta["lcols"])):
            raise Bad("long-columns", "columns %s != %s" % (list(X.columns),
                                                            list(meta["lcols"])))
        if len(X) != I * C * T:
            raise Bad("shape", "%d rows != %d" % (len(X), I * C * T))
        cells = {}
        for i, t, d, v in zip(X[ci].tolist(), X[ct].tolist(), X[cd].tolist(), X[cv].tolist()):
            i, t, d = _norm(i), _norm(t), _norm(d)
            if (i, d, t) in cells:
                raise Bad("index-labels", "duplicate row (%r,%r,%r)" % (i, d, t))
            cells[(i, d, t)] = _num(v)
        try:
            dims = sorted({k[1] for k in cells})
        except TypeError:
            raise Bad("structure", "unsortable identifiers")
        if len(dims) != C:
            raise Bad("shape", "%d distinct identifiers != %d" % (len(dims), C))
        vals = []
        for i in range(I):
            vals.append([])
            for d in dims:
                try:
                    vals[i].append([cells[(i, d, t)] for t in range(T)])
                except KeyError as e:
                    raise Bad("index-labels", "missing row %s" % (e,))
        return vals, dims
    if rep in ("T2", "T2F"):
        if rep == "T2":
            if not isinstance(X, np.ndarray):
                raise Bad("type", "expected ndarray, got %s" % type(X).__name__)
            raw, names = X, None
        else:
            if not isinstance(X, pd.DataFrame):
                raise Bad("type", "expected DataFrame, got %s" % type(X).__name__)
            raw = X.to_numpy()
            if X.shape == (I, C * T):
                if not _labels_are_range(X.index, I):
                    raise Bad("instance-index", "row labels %s" % list(X.index))
                names = []
                labs = [str(v) for v in X.columns]
                for c in range(C):
                    pre = None
                    for t in range(T):
                        lab = labs[c * T + t]
                        head, sep, tail = lab.rpartition("__")
                        if not sep or tail != str(t) or (pre is not None and head != pre):
                            raise Bad("column-labels", "2-D labels %s" % labs)
                        pre = head
                    names.append(pre)
        if raw.shape != (I, C * T):
            raise Bad("shape", "table shape %s != %s" % (raw.shape, (I, C * T)))
        vals = [[[_num(raw[i, c * T + t]) for t in range(T)] for c in range(C)]
                for i in range(I)]
        return vals, names
    raise ValueError(rep)


def _digest(rep, meta, vals, names):
    s = repr((rep, sorted(meta.items()), vals, names))
    return hashlib.blake2b(s.encode(), digest_size=8).hexdigest()


# --------------------------------------------------------------------------- model
class M:
    """what the harness knows about a state: which original variable sits at position k,
    which names the container must show (None: representation carries no names)"""
    __slots__ = ("rep", "perm", "names", "meta")

    def __init__(self, rep, perm, names, meta):
        self.rep, self.perm, self.meta = rep, tuple(perm), dict(meta)
        self.names = None if names is None else list(names)


def _sorted_by_name(perm, names):
    order = sorted(range(len(perm)), key=lambda k: names[k])
    return [perm[k] for k in order], [names[k] for k in order]


def _edges(m, orig_names):
    """all transitions leaving model state m: (edge id, thunk factory, successor model)"""
    from sktime.utils import data_processing as dp

    C = len(m.perm)
    carry = [orig_names[p] for p in m.perm]
    dflt = ["var_%d" % k for k in range(C)]
    E = []
    if m.rep in ("NS", "NA"):
        E.append(("n->3d", lambda X: dp.from_nested_to_3d_numpy(X),
                  M("A3", m.perm, None, {})))
        E.append(("n->mi[def]", lambda X: dp.from_nested_to_multi_index(X),
                  M("MI", m.perm, m.names, {"levels": ("instance", "timepoints")})))
        E.append(("n->mi[nam]",
                  lambda X: dp.from_nested_to_multi_index(X, instance_index="case",
                                                          time_index="t"),
                  M("MI", m.perm, m.names, {"levels": ("case", "t")})))
        p2, n2 = _sorted_by_name(m.perm, m.names)
        E.append(("n->long[def]", lambda X: dp.from_nested_to_long(X),
                  M("LG", p2, n2, {"lcols": ("index", "time_index", "column", "value")})))
        E.append(("n->long[nam]",
                  lambda X: dp.from_nested_to_long(X, instance_column_name="case_id",
                                                   time_column_name="reading_id",
                                                   dimension_column_name="dim_id"),
                  M("LG", p2, n2, {"lcols": ("case_id", "reading_id", "dim_id", "value")})))
        E.append(("n->2d[np]", lambda X: dp.from_nested_to_2d_array(X, return_numpy=True),
                  M("T2", m.perm, None, {})))
        E.append(("n->2d[df]", lambda X: dp.from_nested_to_2d_array(X),
                  M("T2F", m.perm, [str(n) for n in m.names], {})))
    elif m.rep == "A3":
        for cell, rep in (("S", "NS"), ("A", "NA")):
            E.append(("3d->n[%s,def]" % cell,
                      lambda X, cell=cell: dp.from_3d_numpy_to_nested(
                          X, cells_as_numpy=(cell == "A")),
                      M(rep, m.perm, dflt, {})))
            E.append(("3d->n[%s,nam]" % cell,
                      lambda X, cell=cell: dp.from_3d_numpy_to_nested(
                          X, column_names=list(carry), cells_as_numpy=(cell == "A")),
                      M(rep, m.perm, carry, {})))
        E.append(("3d->mi[def]", lambda X: dp.from_3d_numpy_to_multi_index(X),
                  M("MI", m.perm, dflt, {"levels": ("instances", "timepoints")})))
        E.append(("3d->mi[nam]",
                  lambda X: dp.from_3d_numpy_to_multi_index(
                      X, instance_index="case", time_index="t", column_names=list(carry)),
                  M("MI", m.perm, carry, {"levels": ("case", "t")})))
        E.append(("3d->2d", lambda X: dp.from_3d_numpy_to_2d_array(X),
                  M("T2", m.perm, None, {})))
    elif m.rep == "MI":
        l0, l1 = m.meta["levels"]
        E.append(("mi->3d",
                  lambda X: dp.from_multi_index_to_3d_numpy(X, instance_index=l0,
                                                            time_index=l1),
                  M("A3", m.perm, None, {})))
        E.append(("mi->n[S]",
                  lambda X: dp.from_multi_index_to_nested(X, instance_index=l0),
                  M("NS", m.perm, m.names, {})))
        E.append(("mi->n[A]",
                  lambda X: dp.from_multi_index_to_nested(X, instance_index=l0,
                                                          cells_as_numpy=True),
                  M("NA", m.perm, m.names, {})))
    elif m.rep == "LG":
        ci, ct, cd, cv = m.meta["lcols"]
        E.append(("long->n[def]",
                  lambda X: dp.from_long_to_nested(
                      X, instance_column_name=ci, time_column_name=ct,
                      dimension_column_name=cd, value_column_name=cv),
                  M("NS", m.perm, dflt, {})))
        E.append(("long->n[nam]",
                  lambda X: dp.from_long_to_nested(
                      X, instance_column_name=ci, time_column_name=ct,
                      dimension_column_name=cd, value_column_name=cv,
                      column_names=list(carry)),
                  M("NS", m.perm, carry, {})))
    elif m.rep in ("T2", "T2F") and C == 1:
        for cell, rep in (("S", "NS"), ("A", "NA")):
            E.append(("2d->n[%s,def]" % cell,
                      lambda X, cell=cell: dp.from_2d_array_to_nested(
                          X, cells_as_numpy=(cell == "A")),
                      M(rep, m.perm, [0], {})))
            E.append(("2d->n[%s,nam]" % cell,
                      lambda X, cell=cell: dp.from_2d_array_to_nested(
                          X, columns=list(carry), cells_as_numpy=(cell == "A")),
                      M(rep, m.perm, carry, {})))
    return E


def _start_model(rep, names):
    C = len(names)
    perm = list(range(C))
    if rep in ("NS", "NA"):
        return M(rep, perm, names, {})
    if rep == "A3" or rep == "T2":
        return M(rep, perm, None, {})
    if rep == "MI":
        return M(rep, perm, names, {"levels": ("instances", "timepoints")})
    if rep == "LG":
        p2, n2 = _sorted_by_name(perm, names)
        return M(rep, p2, n2, {"lcols": ("case_id", "reading_id", "dim_id", "value")})
    if rep == "T2F":
        return M(rep, perm, [str(n) for n in names], {})
    raise ValueError(rep)


def _expected(vals, m):
    return [[list(vals[i][p]) for p in m.perm] for i in range(len(vals))]


def _names_eq(a, b):
    if a is None or b is None:
        return a is None and b is None
    return len(a) == len(b) and all(type(x) is type(y) and x == y for x, y in zip(a, b))


def _predicates(res, rep, X, C, where):
    """is_nested_dataframe / are_columns_nested on a reached state"""
    from sktime.utils.data_processing import are_columns_nested, is_nested_dataframe

    want = rep in ("NS", "NA")
    o = call(lambda: is_nested_dataframe(X))
    res.evals += 1
    if not o.ok or bool(o.value) is not want or not isinstance(o.value, (bool, np.bool_)):
        res.violate("pred:is_nested_dataframe:%s" % rep,
                    "is_nested_dataframe wrong on a %s container (%s)" % (rep, where),
                    expected=want, observed=o.value if o.ok else o.brief())
    if isinstance(X, pd.DataFrame):
        o = call(lambda: [bool(b) for b in are_columns_nested(X)])
        ncol = X.shape[1]
        if not o.ok or o.value != [want] * ncol:
            res.violate("pred:are_columns_nested:%s" % rep,
                        "are_columns_nested wrong on a %s container (%s)" % (rep, where),
                        expected=[want] * ncol, observed=o.value if o.ok else o.brief())


# --------------------------------------------------------------------------- graph case
def _run_graph(case, res):
    I, C, T = case["I"], case["C"], case["T"]
    vals = _vals(I, C, T, case["fam"])
    names = _names(case["names"], C)
    start = case["start"]
    m0 = _start_model(start, names)
    # the harness-built long table holds the variables in *original* order of `names`
    X0 = _build(start, vals, names, m0.meta, case.get("order", 0))
    try:
        v0, n0 = _decode(start, X0, I, C, T, m0.meta)
    except Bad as e:  # pragma: no cover - harness self test
        res.violate("harness:builder", "builder/decoder disagree: %s" % e.msg)
        return res
    if v0 != _expected(vals, m0) or not _names_eq(n0, m0.names):
        res.violate("harness:builder", "builder/decoder disagree", expected=_expected(vals, m0),
                    observed=v0)
        return res
    seen = {(start, _digest(start, m0.meta, v0, n0))}
    _predicates(res, start, X0, C, "start")
    frontier = [(X0, m0, [], _digest(start, m0.meta, v0, n0))]
    direct = {}  # rep -> list of (edge id, model, decoded values, decoded names)
    n_round = n_paths = n_cmp = 0
    for depth in range(1, case["depth"] + 1):
        nxt = []
        for X, m, path, dig in frontier:
            for eid, fn, m2 in _edges(m, names):
                src = m.rep
                key = "%s:%s" % (src, eid)
                out = call(fn, X)
                res.transitions += 1
                p2 = path + [eid]
                # the input must still be what it was
                try:
                    vb, nb = _decode(src, X, I, C, T, m.meta)
                    same = _digest(src, m.meta, vb, nb) == dig
                except Bad:
                    same = False
                if not same:
                    res.violate(key + ":mutates-input", "conversion changed its argument",
                                expected="argument unchanged", observed=dict(path=p2))
                    continue
                if not out.ok:
                    res.outcome("raise:%s:%s" % (eid, out.kind))
                    res.violate(key + ":raises", "conversion raised on a valid panel",
                                expected="a %s container" % m2.rep,
                                observed=dict(path=p2, error=out.brief()))
                    continue
                Y = out.value
                try:
                    vy, ny = _decode(m2.rep, Y, I, C, T, m2.meta)
                except Bad as e:
                    res.violate("%s:%s" % (key, e.aspect),
                                "result is not a well-formed %s container of the panel: %s" % (
                                    m2.rep, e.msg),
                                expected=dict(shape=(I, C, T), rep=m2.rep),
                                observed=dict(path=p2, start=start))
                    continue
                n_paths += 1
                exp = _expected(vals, m2)
                bad = False
                if vy != exp:
                    bad = True
                    res.violate(key + ":values", "values / order differ from the original panel "
                                "(variables expected in positions %s of the original)" % (
                                    list(m2.perm),),
                                expected=exp, observed=dict(path=p2, start=start, values=vy))
                if not _names_eq(ny, m2.names):
                    bad = True
                    res.violate(key + ":names", "column names differ",
                                expected=m2.names, observed=dict(path=p2, start=start, names=ny))
                if depth > 1:
                    # every path between two representations equals the direct conversion
                    for deid, dm, dv, dn in direct.get(m2.rep, ()):
                        if dm.perm == m2.perm:
                            res.evals += 1
                            n_cmp += 1
                            if dv != vy:
                                res.violate("path-vs-direct:%s->%s:values" % (start, m2.rep),
                                            "path result differs from the direct conversion",
                                            expected=dict(direct=deid, values=dv),
                                            observed=dict(path=p2, values=vy))
                            if (dm.names is not None and m2.names is not None
                                    and _names_eq(dm.names, m2.names)
                                    and not _names_eq(dn, ny)):
                                res.violate("path-vs-direct:%s->%s:names" % (start, m2.rep),
                                            "path names differ from the direct conversion",
                                            expected=dict(direct=deid, names=dn),
                                            observed=dict(path=p2, names=ny))
                if bad:
                    continue
                d2 = _digest(m2.rep, m2.meta, vy, ny)
                seen.add((m2.rep, d2))
                _predicates(res, m2.rep, Y, C, "after " + eid)
                if depth == 1:
                    direct.setdefault(m2.rep, []).append((eid, m2, vy, ny))
                if m2.rep == start:
                    n_round += 1
                res.nt((I, C, T, case["names"], start, tuple(p2)))
                nxt.append((Y, m2, p2, d2))
        frontier = nxt
    res.states = len(seen)
    res.evals += n_paths
    res.outcome("graph:%s:paths>0" % start if n_paths else "graph:%s:no-edges" % start)
    if n_round:
        res.outcome("graph:%s:roundtrips" % start)
    if n_cmp:
        res.outcome("graph:%s:path-vs-direct" % start)
    return res


# --------------------------------------------------------------------------- predicates
def _cell(kind, r, c):
    if kind == "f":
        return 1.5 + r + 10 * c
    if kind == "i":
        return 3 + r
    if kind == "s":
        return "x%d" % r
    if kind == "n":
        return None
    if kind == "S":
        return pd.Series([1.0 + r, 2.0 + c])
    if kind == "A":
        return np.array([1.0 + r, 2.0 + c])
    raise ValueError(kind)


def _run_pred(case, res):
    from sktime.utils.data_processing import are_columns_nested, is_nested_dataframe
    from sktime.utils.validation.panel import check_X

    R, Cc, kinds = case["rows"], case["cols"], case["kinds"]
    n = R * Cc
    for rest in itertools.product(kinds, repeat=n - 1):
        assign = (case["first"],) + rest
        grid = [[assign[r * Cc + c] for c in range(Cc)] for r in range(R)]
        X = pd.DataFrame({("k%d" % c): _obj_col([_cell(grid[r][c], r, c) for r in range(R)])
                          for c in range(Cc)})
        if all(all(k == "f" for k in row) for row in grid):
            X = X.astype(float)  # a genuinely plain numeric frame
        want_cols = [any(grid[r][c] in "SA" for r in range(R)) for c in range(Cc)]
        want = any(want_cols)
        res.evals += 1
        o = call(lambda: is_nested_dataframe(X))
        cls = "nested" if all(want_cols) and all(all(k in "SA" for k in row) for row in grid) \
            else ("mixed" if want else "plain")
        res.outcome("pred:%s:%s" % (cls, o.value if o.ok else o.kind))
        if not o.ok or bool(o.value) is not want:
            res.violate("pred:is_nested_dataframe:%s" % cls,
                        "is_nested_dataframe must be True exactly when a cell holds a "
                        "Series/array", expected=want,
                        observed=dict(grid=grid, got=o.value if o.ok else o.brief()))
        o = call(lambda: [bool(b) for b in are_columns_nested(X)])
        if not o.ok or o.value != want_cols:
            res.violate("pred:are_columns_nested:%s" % cls,
                        "are_columns_nested must flag exactly the columns holding a "
                        "Series/array cell", expected=want_cols,
                        observed=dict(grid=grid, got=o.value if o.ok else o.brief()))
        if not want:
            # plain frames are not valid panel input for check_X
            o = call(lambda: check_X(X))
            if not o.is_a(ValueError):
                res.violate("check_X:plain-frame", "check_X accepted a frame without "
                            "series-valued cells", expected="ValueError",
                            observed=dict(grid=grid, got=o.brief()))
        res.nt(("pred", R, Cc, assign))
    return res


def _run_pred_other(case, res):
    from sktime.utils.data_processing import is_nested_dataframe

    s = pd.Series([1.0, 2.0])
    others = {
        "ndarray3": np.zeros((2, 1, 3)),
        "ndarray2": np.zeros((2, 3)),
        "nested_series": pd.Series(_obj_col([s, s])),
        "plain_series": s,
        "list": [[s]],
        "none": None,
        "dict": {"a": [s]},
        "empty_frame": pd.DataFrame(),
        "empty_rows": pd.DataFrame({"a": []}),
    }
    for name, x in others.items():
        o = call(lambda: is_nested_dataframe(x))
        res.evals += 1
        res.outcome("pred_other:%s:%s" % (name, o.value if o.ok else o.kind))
        if not o.ok or bool(o.value) is not False:
            res.violate("pred:is_nested_dataframe:other:%s" % name,
                        "is_nested_dataframe must be False for anything that is not a frame "
                        "with series-valued cells", expected=False,
                        observed=o.value if o.ok else o.brief())
        res.nt(("pred_other", name))
    return res


# --------------------------------------------------------------------------- check_X
def _run_checkx(case, res):
    from sktime.utils.validation.panel import check_X

    I, C, T = case["I"], case["C"], case["T"]
    vals = _vals(I, C, T, case["fam"])
    names = _names(case["names"], C)
    dflt = ["var_%d" % k for k in range(C)]
    lev = {"levels": ("instances", "timepoints")}
    lc = {"lcols": ("case_id", "reading_id", "dim_id", "value")}
    inputs = [("NS", {}, True), ("NA", {}, True), ("A3", {}, True), ("MI", lev, False),
              ("LG", lc, False), ("T2", {}, False), ("T2F", {}, False)]
    for rep, meta, valid in inputs:
        for to_np, to_pd, uni in itertools.product((False, True), repeat=3):
            X = _build(rep, vals, names, meta)
            before = _digest(rep, meta, *_decode(rep, X, I, C, T, meta))
            o = call(lambda: check_X(X, coerce_to_numpy=to_np, coerce_to_pandas=to_pd,
                                     enforce_univariate=uni))
            res.evals += 1
            res.transitions += 1
            tag = "%s:np=%d:pd=%d" % (rep, to_np, to_pd)
            must_raise = (to_np and to_pd) or (not valid) or (uni and C > 1)
            res.outcome("check_X:%s:%s" % ("reject" if must_raise else "accept", o.kind))
            if _digest(rep, meta, *_decode(rep, X, I, C, T, meta)) != before:
                res.violate("check_X:%s:mutates-input" % tag, "check_X changed its argument")
            if must_raise:
                if not o.is_a(ValueError):
                    why = ("both coercions" if to_np and to_pd else
                           "not a panel container" if not valid else "multivariate")
                    res.violate("check_X:%s:accepts-%s" % (rep, why.replace(" ", "-")),
                                "check_X must raise ValueError (%s)" % why,
                                expected="ValueError", observed=o.brief())
                continue
            if not o.ok:
                res.violate("check_X:%s:raises" % tag, "valid panel rejected",
                            observed=o.brief())
                continue
            if to_np:
                orep, onames = "A3", None
            elif to_pd and rep == "A3":
                orep, onames = "NS", dflt
            else:
                orep, onames = rep, (None if rep == "A3" else names)
            try:
                vy, ny = _decode(orep, o.value, I, C, T, {})
            except Bad as e:
                res.violate("check_X:%s:%s" % (tag, e.aspect),
                            "check_X result is not a %s container of the panel: %s" % (
                                orep, e.msg), expected=dict(rep=orep, shape=(I, C, T)))
                continue
            if vy != vals:
                res.violate("check_X:%s:values" % tag, "check_X changed values/order",
                            expected=vals, observed=vy)
            if not _names_eq(ny, onames):
                res.violate("check_X:%s:names" % tag, "check_X changed the column names",
                            expected=onames, observed=ny)
            res.nt(("checkx", I, C, T, case["names"], tag, uni))
    res.states = len(inputs)
    return res


# --------------------------------------------------------------------------- nested Series
def _run_series2d(case, res):
    from sktime.utils.data_processing import from_nested_to_2d_array

    I, T = case["I"], case["T"]
    vals = _vals(I, 1, T, case["fam"])
    for rep in ("NS", "NA"):
        for nm in ("b", 2):
            X = _build(rep, vals, [nm], {})
            s = X[nm]
            for ret_np in (True, False):
                o = call(lambda: from_nested_to_2d_array(s, return_numpy=ret_np))
                res.evals += 1
                res.transitions += 1
                orep = "T2" if ret_np else "T2F"
                key = "series:%s:n->2d[%s]" % (rep, "np" if ret_np else "df")
                if not o.ok:
                    res.violate(key + ":raises", "nested Series rejected", observed=o.brief())
                    continue
                try:
                    vy, ny = _decode(orep, o.value, I, 1, T, {})
                except Bad as e:
                    res.violate("%s:%s" % (key, e.aspect), "not a 2-D table of the panel: "
                                + e.msg, observed=o.value)
                    continue
                if vy != vals:
                    res.violate(key + ":values", "values differ", expected=vals, observed=vy)
                if not ret_np and ny != [str(nm)]:
                    res.violate(key + ":names", "2-D labels lost the Series name",
                                expected=[str(nm)], observed=ny)
                res.nt(("series2d", I, T, rep, nm, ret_np))
    res.outcome("series2d")
    return res


def run_case(case):
    res = Result()
    res.evals = 0
    kind = case["kind"]
    if kind == "graph":
        return _run_graph(case, res)
    if kind == "pred":
        return _run_pred(case, res)
    if kind == "pred_other":
        return _run_pred_other(case, res)
    if kind == "checkx":
        return _run_checkx(case, res)
    if kind == "series2d":
        return _run_series2d(case, res)
    if kind == "instlabels":
        return _run_instlabels(case, res)
    if kind == "misubset":
        return _run_misubset(case, res)
    if kind == "manyvars":
        return _run_manyvars(case, res)
    if kind == "bigint":
        return _run_bigint(case, res)
    raise ValueError(kind)


INSTLABELS = {"desc": lambda I: [9 - 2 * i for i in range(I)],
              "str": lambda I: ["q", "b", "k", "a"][:I],
              "shuffled": lambda I: [(i * 2 + 1) % I if I % 2 else (I - 1 - i) for i in range(I)]}
INSTPATHS = [["n>mi", "mi>n"], ["n>mi", "mi>3d"], ["n>3d"], ["n>mi", "mi>n", "n>mi", "mi>3d"],
             ["n>mi", "mi>nA"], ["n>long"]]


def _run_manyvars(case, res):
    """variables identified by the integers 0..C-1, C > 10: nested -> long -> nested and a
    shuffled hand-made long table keep the variables in the order of their identifiers"""
    import sktime.utils.data_processing as dp

    I, C, T = case["I"], case["C"], case["T"]
    X = np.array([[[_value(i, c, t, case["fam"]) for t in range(T)] for c in range(C)]
                  for i in range(I)], dtype=float)

    def via_nested():
        nested = dp.from_3d_numpy_to_nested(X, column_names=list(range(C)))
        long = dp.from_nested_to_long(nested, instance_column_name="case_id",
                                      time_column_name="reading_id",
                                      dimension_column_name="dim_id")
        return dp.from_nested_to_3d_numpy(dp.from_long_to_nested(long))

    def via_table():
        rows = [(i, j, t, X[i, j, t]) for t in range(T) for j in reversed(range(C))
                for i in range(I)]
        table = pd.DataFrame(rows, columns=["case_id", "dim_id", "reading_id", "value"])
        return dp.from_nested_to_3d_numpy(dp.from_long_to_nested(table))

    for nm, fn in (("n>long>n", via_nested), ("table>n", via_table)):
        o = call(fn)
        res.transitions += 1
        res.evals += 1
        if not o.ok:
            res.violate("manyvars:%s:raises" % nm, "conversion raised", observed=o.brief())
            return res
        got = np.asarray(o.value, dtype=float)
        if got.shape != X.shape or not np.array_equal(got, X):
            res.violate("manyvars:%s:order" % nm, "with more than ten integer-identified "
                        "variables the long-table route does not return the variables in the "
                        "order of their identifiers", expected=X[0, :, 0].tolist(),
                        observed=got[0, :, 0].tolist() if got.ndim == 3 else list(got.shape))
            return res
    res.nt(("manyvars", I, C, T))
    res.outcome("manyvars:ok")
    return res


def _run_bigint(case, res):
    """integer panels whose values exceed 2**53: 3d -> nested -> 3d and check_X must return the
    original integers exactly"""
    import sktime.utils.data_processing as dp
    from sktime.utils.validation.panel import check_X

    I, C, T = case["I"], case["C"], case["T"]
    base = 2 ** 60
    vals = [[[base + 100 * i + 10 * c + t + 1 for t in range(T)] for c in range(C)]
            for i in range(I)]
    X = np.array(vals, dtype=np.int64)

    def nested():
        if case["cell"] == "S":
            return dp.from_3d_numpy_to_nested(X)
        return pd.DataFrame({"var_%d" % c: _obj_col([X[i, c].copy() for i in range(I)])
                             for c in range(C)})

    for nm, fn in (("n>3d", lambda: dp.from_nested_to_3d_numpy(nested())),
                   ("check_X", lambda: check_X(nested(), coerce_to_numpy=True))):
        o = call(fn)
        res.transitions += 1
        res.evals += 1
        if not o.ok:
            res.violate("bigint:%s:raises" % nm, "conversion raised", observed=o.brief())
            return res
        got = [[[int(v) for v in col] for col in inst] for inst in np.asarray(o.value).tolist()] \
            if np.asarray(o.value).dtype.kind in "iu" else \
            [[[int(v) for v in col] for col in inst] for inst in np.asarray(o.value)]
        if got != vals:
            res.violate("bigint:%s:values" % nm, "integer values beyond 2**53 are not returned "
                        "exactly (they went through a float64 buffer)",
                        expected=vals[0][0], observed=got[0][0])
            return res
    res.nt(("bigint", I, C, T, case["cell"]))
    res.outcome("bigint:ok")
    return res


def _run_misubset(case, res):
    """a multi-index panel obtained by selecting instances / time points of a bigger one must
    convert like a freshly built panel with the same content"""
    import sktime.utils.data_processing as dp

    C, T, sel, tsel = case["C"], case["T"], case["sel"], case["tsel"]
    Tb = T + 1
    big = np.array([[[_value(i, c, t, case["fam"]) for t in range(Tb)] for c in range(C)]
                    for i in range(3)], dtype=float)
    mi = dp.from_3d_numpy_to_multi_index(big, instance_index="case", time_index="time")
    ts = {"all": list(range(Tb)), "head": list(range(T)), "tail": list(range(1, Tb))}[tsel]
    inst = mi.index.get_level_values(0)
    tim = mi.index.get_level_values(1)
    sub = mi[np.isin(inst, sel) & np.isin(tim, ts)]
    want = big[sel][:, :, ts]
    res.evals += 1
    for name, fn in (("mi>3d", lambda: dp.from_multi_index_to_3d_numpy(
            sub, instance_index="case", time_index="time")),
            ("mi>n>3d", lambda: dp.from_nested_to_3d_numpy(dp.from_multi_index_to_nested(
                sub, instance_index="case")))):
        o = call(fn)
        res.transitions += 1
        if not o.ok:
            res.violate("misubset:%s:raises" % name, "conversion raised for a multi-index panel "
                        "that is a selection of a bigger panel", observed=dict(
                            error=o.brief(), instances=sel, times=tsel))
            return res
        got = np.asarray(o.value, dtype=float)
        if got.shape != want.shape or not np.array_equal(got, want):
            res.violate("misubset:%s:values" % name, "values / shape changed for a multi-index "
                        "panel that is a selection of a bigger panel",
                        expected=dict(shape=list(want.shape), values=want.tolist()),
                        observed=dict(shape=list(got.shape), values=got.tolist(),
                                      instances=sel, times=tsel))
            return res
    res.nt(("misubset", C, T, tuple(sel), tsel))
    res.outcome("misubset:ok")
    return res


def _run_instlabels(case, res):
    """panels whose instances carry non-default row labels: values and INSTANCE ORDER must
    survive every label-carrying path (the statement promises values, shape and order, not the
    instance labels themselves, so labels are not judged)"""
    import sktime.utils.data_processing as dp

    I, C, T = case["I"], case["C"], case["T"]
    labs = INSTLABELS[case["labels"]](I)
    vals = [[[_value(i, c, t, case["fam"]) for t in range(T)] for c in range(C)] for i in range(I)]
    names = ["b", "a", "c", "aa", "d"][:C]
    X = pd.DataFrame({names[c]: _obj_col([pd.Series(vals[i][c]) for i in range(I)])
                      for c in range(C)}, columns=names)
    X.index = pd.Index(labs)
    cur, rep = X, "n"
    path = case["path"]
    for step in path:
        fn = {"n>mi": lambda Z: dp.from_nested_to_multi_index(Z, instance_index="case",
                                                              time_index="t"),
              "mi>n": lambda Z: dp.from_multi_index_to_nested(Z, instance_index="case"),
              "mi>nA": lambda Z: dp.from_multi_index_to_nested(Z, instance_index="case",
                                                               cells_as_numpy=True),
              "mi>3d": lambda Z: dp.from_multi_index_to_3d_numpy(Z, instance_index="case",
                                                                 time_index="t"),
              "n>3d": dp.from_nested_to_3d_numpy,
              "n>long": dp.from_nested_to_long}[step]
        o = call(fn, cur)
        res.transitions += 1
        if not o.ok:
            res.violate("instlabels:%s:raises" % step, "conversion raised for a panel with "
                        "non-default instance labels", observed=dict(path=path, error=o.brief()))
            return res
        cur, rep = o.value, step.split(">")[1]
    res.states += len(path)
    res.nt(("instlabels", I, C, T, case["labels"], tuple(path)))
    res.outcome("instlabels:" + rep)
    H = dict(path=path, labels=labs)
    if rep in ("n", "nA"):
        got = [[[float(v) for v in np.asarray(cur.iat[i, c])] for c in range(C)] for i in range(I)]
        glabs = list(cur.index)
    elif rep == "3d":
        got = [[[float(v) for v in cur[i, c]] for c in range(C)] for i in range(I)]
        glabs = None
    elif rep == "mi":
        glabs = list(dict.fromkeys(cur.index.get_level_values(0)))
        got = [[[float(cur.loc[(lab, t), names[c]]) for t in range(T)] for c in range(C)]
               for lab in glabs]
    else:  # long table: a relation keyed by the instance label
        col_i, col_t, col_d, col_v = list(cur.columns)
        got = [[[float(cur[(cur[col_i] == labs[i]) & (cur[col_d] == names[c]) &
                           (cur[col_t] == t)][col_v].iloc[0]) for t in range(T)]
                for c in range(C)] for i in range(I)]
        glabs = None
    if got != vals:
        res.violate("instlabels:%s:order" % "/".join(path), "values or instance order changed for "
                    "a panel whose instances carry non-default labels", expected=vals,
                    observed=dict(values=got, **H))
    return res
