"""C07 - evaluate() reports what an honest per-fold fit/predict/score would give (E1 + monitor)."""
import numpy as np
import pandas as pd

from ..core import Result, call, close, subsets

ID = "C07"
LEVEL = "exploration"
ANCHORS = [
    "sktime/forecasting/model_evaluation/_functions.py",
    "sktime/forecasting/model_selection/_split.py",
    "sktime/utils/validation/forecasting.py",
]
RULE = (
    "full product splitter {expanding, sliding, single, sliding with an initial window} x window x step x fh (non-empty "
    "subsets of {1..3}) x n x strategy {refit, update} x scoring {default sMAPE, "
    "MAPE(symmetric=False), asymmetric make_forecasting_scorer, a greater_is_better=True scorer} x forecaster {recording "
    "last/mean, a recording forecaster whose update does not refit by default, Naive "
    "last/mean/drift, PolynomialTrend} x (X, return_data, forecaster already "
    "fitted on the whole series before the call) in {(None,F,F), (1 col,T,F), (None,F,T)} "
    "(thorough: crossed). Oracle: honest per-fold loop in the harness with fresh "
    "clones + leak monitor on the recording forecaster's call log. non-trivial = >=2 folds."
)
ASSUMPTIONS = [
    "the folds are those of the splitter's definition: split(y) of the splitter handed to "
    "evaluate is first compared with C01's integer reference model, then used for the honest loop",
    "wall-clock columns (fit_time, pred_time) are not compared",
]

FORECASTERS = ["rec_last", "rec_mean", "naive_last", "naive_mean", "naive_drift", "poly", "rec_lazy"]
SCORINGS = ["default", "mape_asym", "custom_asym", "custom_gib"]


def gen_cases(tier, seed):
    ns = (8, 10) if tier == "quick" else (8, 9, 10, 11, 13)
    for n in ns:
        for sk in ("expanding", "sliding", "single", "sliding_iw"):
            for W in (2, 3, 4):
                for s in ((1, 2, 3) if sk != "single" else (1,)):
                    if sk == "sliding_iw" and (W == 4 or tier == "quick" and n == 8):
                        continue
                    for fh in subsets(range(1, 4)):
                        for strat in ("refit", "update"):
                            for sc in SCORINGS:
                                for fc in FORECASTERS:
                                    combos = ((False, False, False), (True, True, False),
                                              (False, False, True)) if tier == "quick" \
                                        else ((False, False, False), (True, True, False),
                                              (True, False, True), (False, True, True),
                                              (False, False, True), (True, True, True))
                                    for withX, rd, prefit in combos:
                                        yield dict(n=n, splitter=sk, W=W, s=s, fh=fh,
                                                   strategy=strat, scoring=sc, forecaster=fc,
                                                   X=withX, return_data=rd, prefit=prefit,
                                                   fam=seed % 3)


def _series(n, fam):
    t = np.arange(n, dtype=float)
    v = [10.0 + 2.0 * t + (t % 3), 40.0 - 1.5 * t + 0.5 * ((t * 5) % 4),
         7.0 + ((t * 7) % 5) + 0.25 * t][fam]
    return pd.Series(v, index=pd.RangeIndex(3, 3 + n))


def _asym(y_true, y_pred):
    """deliberately asymmetric in its arguments"""
    yt = np.asarray(y_true, dtype=float)
    yp = np.asarray(y_pred, dtype=float)
    return float(np.mean(np.abs(yt - yp) / (np.abs(yt) + 1.0)) + 0.01 * np.mean(yp))


def _hit(y_true, y_pred):
    yt = np.asarray(y_true, dtype=float)
    yp = np.asarray(y_pred, dtype=float)
    return float(1.0 / (1.0 + np.mean(np.abs(yt - yp)))) + 0.001 * float(np.mean(yt))


def _mk_scoring(name):
    from sktime.performance_metrics.forecasting import (
        MeanAbsolutePercentageError, make_forecasting_scorer)

    if name == "default":
        return None, MeanAbsolutePercentageError()
    if name == "mape_asym":
        m = MeanAbsolutePercentageError(symmetric=False)
        return m, m
    if name == "custom_gib":
        # a score where greater is better: evaluate must still report metric(y_true, y_pred)
        m = make_forecasting_scorer(_hit, name="hit", greater_is_better=True)
        return m, m
    m = make_forecasting_scorer(_asym, name="asym")
    return m, m


def _mk_forecaster(name):
    from sktime.forecasting.naive import NaiveForecaster
    from sktime.forecasting.trend import PolynomialTrendForecaster
    from .. import doubles

    if name == "rec_last":
        return doubles.RecForecaster(tag="R", strategy="last")
    if name == "rec_mean":
        return doubles.RecForecaster(tag="R", strategy="mean")
    if name == "rec_lazy":
        return doubles.RecForecasterLazy(tag="R")
    if name == "poly":
        return PolynomialTrendForecaster(degree=1)
    return NaiveForecaster(strategy=name.split("_")[1])


def _mk_cv(case):
    from sktime.forecasting.model_selection import (
        ExpandingWindowSplitter, SingleWindowSplitter, SlidingWindowSplitter)

    fh, W, s = case["fh"], case["W"], case["s"]
    if case["splitter"] == "expanding":
        return ExpandingWindowSplitter(fh=fh, initial_window=W, step_length=s)
    if case["splitter"] == "sliding":
        return SlidingWindowSplitter(fh=fh, window_length=W, step_length=s)
    if case["splitter"] == "sliding_iw":
        return SlidingWindowSplitter(fh=fh, window_length=W, step_length=s, initial_window=W + 1)
    return SingleWindowSplitter(fh=fh, window_length=W)


def _honest(case, y, X, folds, metric):
    from sklearn.base import clone
    from sktime.forecasting.base import ForecastingHorizon

    g = None
    for i, (train, test) in enumerate(folds):
        y_train, y_test = y.iloc[train], y.iloc[test]
        X_train = None if X is None else X.iloc[train]
        fh_abs = ForecastingHorizon(y_test.index, is_relative=False)
        X_test = None if X is None else X.iloc[train[-1] + 1: test[-1] + 1]
        if i == 0 or case["strategy"] == "refit":
            g = clone(_mk_forecaster(case["forecaster"]))
            g.fit(y_train, X_train, fh=fh_abs)
        else:
            g.update(y_train, X_train)
        metric(y_test, g.predict(fh_abs, X=X_test))
    return True


def run_case(case):
    from sklearn.base import clone
    from sktime.forecasting.base import ForecastingHorizon
    from sktime.forecasting.model_evaluation import evaluate
    from .. import doubles

    res = Result()
    n = case["n"]
    y = _series(n, case["fam"])
    X = None
    if case["X"]:
        X = pd.DataFrame({"x": 10000.0 + np.arange(n)}, index=y.index)
    if case["forecaster"] == "poly" and X is not None:
        return res  # PolynomialTrendForecaster documents that it rejects X
    cv = _mk_cv(case)
    scoring_arg, metric = _mk_scoring(case["scoring"])
    f = _mk_forecaster(case["forecaster"])
    if case.get("prefit"):
        # a forecaster that has been used before (fitted on the whole series) is a valid argument
        f.fit(y.copy(), None if X is None else X.copy(), fh=[1])
    folds = call(lambda: [(a.copy(), b.copy()) for a, b in cv.split(y)])
    if not folds.ok or not folds.value:
        res.outcome("splitter-rejects")
        return res
    folds = folds.value
    # "the splits of the splitter" are those of its definition (integer reference model of C01)
    from ..refs import splitters as sref
    sk = case["splitter"]
    if sk == "single":
        want = sref.single_fold(n, case["fh"], case["W"])
    else:
        want = sref.window_folds("expanding" if sk == "expanding" else "sliding", n, case["fh"],
                                 case["W"], case["s"], True,
                                 case["W"] + 1 if sk == "sliding_iw" else None)
    if want is not None:
        got_f = [([int(v) for v in a], [int(v) for v in b]) for a, b in folds]
        if got_f != [(a, b) for a, b, _ in want]:
            res.violate("splits:" + sk, "the splitter handed to evaluate does not yield the "
                        "splits of its definition", expected=[(a, b) for a, b, _ in want][:4],
                        observed=got_f[:4])
            return res
    doubles.reset_log()
    o = call(lambda: evaluate(f, cv, y.copy(), None if X is None else X.copy(),
                              strategy=case["strategy"], scoring=scoring_arg,
                              return_data=case["return_data"]))
    log = list(doubles.LOG)
    res.outcome("%s:%s:%d" % (case["splitter"], o.kind, min(len(folds), 3)))
    if not o.ok:
        # the honest loop decides whether this configuration is executable at all (e.g. a
        # sliding window with step > window leaves gaps in an updated forecaster's memory,
        # which PolynomialTrendForecaster cannot refit on)
        h = call(_honest, case, y, X, folds, metric)
        if h.ok:
            res.violate("evaluate:raises", "evaluate raised where the honest per-fold loop "
                        "succeeds", observed=o.brief())
        elif type(h.exc) is not type(o.exc):
            res.violate("evaluate:raises-differently", "evaluate and the honest loop fail "
                        "differently", expected=h.brief(), observed=o.brief())
        else:
            res.outcome("both-raise:" + o.kind)
        return res
    tab = o.value
    if len(folds) >= 2:
        res.nt(tuple(sorted((k, str(v)) for k, v in case.items())))
    if len(tab) != len(folds):
        res.violate("rows", "number of rows != number of splits", expected=len(folds),
                    observed=len(tab))
        return res
    # honest loop
    score_col = [c for c in tab.columns if c.startswith("test_")]
    if len(score_col) != 1:
        res.violate("score-column", "expected exactly one test_<metric> column",
                    observed=list(tab.columns))
        return res
    score_col = score_col[0]
    g = None
    for i, (train, test) in enumerate(folds):
        y_train, y_test = y.iloc[train], y.iloc[test]
        X_train = None if X is None else X.iloc[train]
        fh_abs = ForecastingHorizon(y_test.index, is_relative=False)
        X_test = None
        if X is not None:
            X_test = X.iloc[train[-1] + 1: test[-1] + 1]
        def step(g=g):
            if i == 0 or case["strategy"] == "refit":
                g = clone(_mk_forecaster(case["forecaster"]))
                if hasattr(g, "tag"):
                    g.set_params(tag="H")
                g.fit(y_train, X_train, fh=fh_abs)
            else:
                g.update(y_train, X_train)
            y_pred = g.predict(fh_abs, X=X_test)
            return g, y_pred, float(metric(y_test, y_pred))

        st = call(step)
        if not st.ok:
            res.violate("evaluate:accepts", "evaluate returned a table where the honest "
                        "per-fold loop raises", expected=st.brief(), observed="table")
            return res
        g, y_pred, exp_score = st.value
        row = tab.iloc[i]
        if not close(float(row[score_col]), exp_score, rtol=1e-9):
            swapped = float(metric(y_pred, y_test))
            res.violate("score" + (":swapped-args" if close(float(row[score_col]), swapped,
                                                             rtol=1e-9) else ""),
                        "fold score differs from metric(y_true, y_pred) of an honest fit",
                        expected=exp_score, observed=float(row[score_col]))
            return res
        if row["cutoff"] != y_train.index[-1]:
            res.violate("cutoff", "reported cutoff is not the end of the training window",
                        expected=y_train.index[-1], observed=row["cutoff"])
            return res
        if int(row["len_train_window"]) != len(y_train):
            res.violate("len_train_window", "reported training length differs",
                        expected=len(y_train), observed=int(row["len_train_window"]))
            return res
        if case["return_data"]:
            for col, e in (("y_train", y_train), ("y_test", y_test), ("y_pred", y_pred)):
                gser = row[col]
                if not isinstance(gser, pd.Series) or list(gser.index) != list(e.index) or \
                        not close(gser.values, e.values, rtol=1e-9):
                    res.violate("return_data:" + col, "returned %s differs from the honest "
                                "fold" % col, expected=e, observed=gser)
                    return res
        elif any(c in tab.columns for c in ("y_train", "y_test", "y_pred")):
            res.violate("return_data:columns", "data columns present without return_data")
            return res
    # leak monitor on the recording forecaster used by evaluate (tag R)
    if case["forecaster"].startswith("rec"):
        k = -1
        for tag, op, a, b, c in log:
            if tag != "R":
                continue
            if op in ("fit", "update"):
                k += 1  # every fit/update call belongs to the next fold
                tmax = max(a[0])
                if b:
                    tmax = max(tmax, max(b))
                fold_i = min(k, len(folds) - 1)
                first_test = y.index[folds[fold_i][1][0]]
                if tmax >= first_test:
                    res.violate("leak", "forecaster was given an observation at/after the "
                                "fold's first test point before predicting",
                                expected="< %s" % first_test, observed=tmax)
                    return res
        n_pred = sum(1 for t in log if t[0] == "R" and t[1] == "predict")
        if n_pred != len(folds):
            res.violate("predict-calls", "one prediction per fold expected",
                        expected=len(folds), observed=n_pred)
    return res
