"""C10 - updating with new data is equivalent to having observed it, for every history
(E2: explicit-state breadth-first search over call histories of the real forecaster)."""
import collections

import numpy as np
import pandas as pd

from .. import canon, fmenu
from ..core import Result, call, close

ID = "C10"
LEVEL = "model_checking"
ANCHORS = [
    "sktime/forecasting/base/_sktime.py", "sktime/forecasting/base/_base.py",
    "sktime/forecasting/compose/_ensemble.py", "sktime/forecasting/compose/_pipeline.py",
    "sktime/forecasting/compose/_stack.py", "sktime/forecasting/compose/_multiplexer.py",
    "sktime/forecasting/theta.py", "sktime/transformations/series/detrend/_detrend.py",
    "sktime/transformations/series/detrend/_deseasonalize.py",
]
RULE = (
    "per forecaster program: breadth-first search from fit(y[0:a]) over the operation menu "
    "{update(next k, update_params) k in 1..3, overlapping update restating the last 1-2 "
    "observed points with changed values plus new ones, update_predict_single(next k, fh), and "
    "the terminal update_predict(next 4-5, SlidingWindowSplitter(W in {1,2}, step in {1,2}, fh "
    "in {[1],[2],[1,2]} plus in-sample horizons [0,1], [-1,1], [0]))} to depth 3 (thorough 4; statsmodels programs 2). A state is the "
    "fresh object rebuilt from its history; states are merged on an exact recursive digest of "
    "the object (over-fine, hence sound). In every state: cutoff, remembered data (union, later "
    "wins), repeated predict, refit-equivalence with a fresh fit on the union when the last "
    "parameter update saw all data, parameter digest unchanged across update_params=False, "
    "closed-form forecasts from the new cutoff for Naive/PolynomialTrend. non-trivial = state "
    "reached by >=1 update."
)
ASSUMPTIONS = [
    "refit-equivalence is demanded only of programs whose every part refits on update: Naive, "
    "PolynomialTrend, ExponentialSmoothing, AutoETS, recursive reduction, ensembles/multiplexers "
    "of those, and pipelines whose transformers are parameter-free (Log, affine double); "
    "Theta, Deseasonalizer/Detrender pipelines, stacking and tuners document partial updates",
    "update_predict: splitters with start_with_window=True and (like the default cv) False; the "
    "empty first window corresponds to update(empty) followed by predict, for data that continues "
    "directly after the current cutoff",
    "data arrive in time order; overlapping batches restate at most the last 2 observed points",
]

# (spec, refit_equivalent, closed_form)
PROGRAMS = [
    (["naive", "last"], True, "naive"),
    (["naive", "mean", 1, 4], True, "naive"),
    (["naive", "drift"], True, None),
    (["naive", "last", 3], True, "naive"),
    (["naive", "mean", 3, 7], True, "naive"),
    (["poly", 1], True, "poly"),
    (["poly", 2], True, "poly"),
    (["red", "recursive", 3, "lin"], True, None),
    (["red", "direct", 3, "lin"], True, None),
    (["ens", "mean", [["naive", "last"], ["poly", 1]]], True, None),
    (["mux", [["naive", "drift"], ["poly", 1]], 1], True, None),
    (["ttf", [["log"]], ["poly", 1]], True, None),
    (["ttf", [["rect", "T", 2.0, 1.0]], ["naive", "mean", 1, 4]], True, None),
    # the detrender refits on update but the residuals the inner forecaster remembers are not
    # recomputed: equivalence with a fresh fit only right after a non-empty refitting update
    (["ttf", [["detrend", 1]], ["naive", "last"]], "after-U", None),
    (["ttf", [["deseason", 3, "additive"]], ["naive", "last"]], False, None),
    (["stack", [["naive", "last"], ["poly", 1]]], False, None),
    (["grid", ["naive", "last"], {"strategy": ["last", "mean"]}], False, None),
    (["es"], True, None),
    (["ets"], True, None),
    (["theta", 3], False, None),
    # a non-identity transformer in front of a stateful one (the detrender must be updated with
    # the batch as transformed by the preceding steps)
    (["ttf", [["log"], ["detrend", 1]], ["naive", "last"]], "after-U", None),
]
FHS = [[1], [1, 2], [2, 3]]


def gen_cases(tier, seed):
    for i, (spec, refit, cf) in enumerate(PROGRAMS):
        slow = fmenu.is_slow(spec)
        core = i in (0, 1, 4, 5, 7, 9, 12, 14)
        if tier == "quick":
            plans = [("q", 3 if core else 2, (10,), ((0, 5)[(i + seed) % 2],) if not slow else (0,))]
        else:
            # full menu to depth 3 (statsmodels programs: depth 2 on the full menu, 3 on the
            # small one); three programs additionally to depth 4 on the small menu
            plans = [("t", 2 if slow else 3, (10,) if slow else (9, 10, 12), (0, 5))]
            if slow:
                plans.append(("q", 3, (10,), (0,)))
            if i in (0, 5, 9):
                plans.append(("q", 4, (10,), (0,)))
        for menu, depth, As, starts in plans:
            for a in As:
                for start in starts:
                    # shard the first-level operations so that one program spreads over workers
                    for first in range(len(_ops(menu))):
                        yield dict(prog=i, a=a, start=start, depth=depth, first=first,
                                   fam=seed % 2, menu=menu)


def _series(n, fam, start):
    t = np.arange(n, dtype=float)
    v = 15.0 + 1.5 * t + np.array([2.0, -1.0, 0.5, 3.0, -2.0])[(t.astype(int) * (fam + 2)) % 5]
    return pd.Series(v, index=pd.RangeIndex(start, start + n))


def _ops(menu):
    """operation menu (JSON-able lists)"""
    ops = []
    for k in ((1, 2) if menu == "q" else (1, 2, 3)):
        for up in (True, False):
            ops.append(["U", k, up])
    for back, new in (((1, 0), (1, 1)) if menu == "q" else ((1, 0), (1, 1), (2, 1))):
        for up in (True, False):
            ops.append(["O", back, new, up])
    for k in ((1,) if menu == "q" else (1, 2)):
        ops.append(["UPS", k])
        ops.append(["UPS", k, False])
    ops.append(["E", True])  # update with an EMPTY batch and update_params=True: a pure refit
    return ops


def _terminals():
    out = []
    for W in (1, 2):
        for s in (1, 2):
            for fh in ([1], [2], [1, 2]):
                out.append(["UP", W, s, fh, True])
    out.append(["UP", 2, 1, [1, 2], False])
    # horizons with in-sample steps (window forecasters predict them through a nested
    # moving-cutoff pass over their own memory)
    out.append(["UP", 2, 1, [0, 1], True])
    out.append(["UP", 2, 2, [-1, 1], False])
    out.append(["UP", 1, 1, [0], True])
    # the default cv of update_predict starts with an EMPTY window (start_with_window=False)
    out.append(["UP", 2, 1, [1], True, "sww0"])
    out.append(["UP", 1, 2, [1, 2], True, "sww0"])
    out.append(["UP", 2, 1, [1, 2], False, "sww0"])
    return out


class Sim:
    """reference bookkeeping for one history: what the forecaster should remember"""

    def __init__(self, y_full, a):
        self.y_full = y_full
        self.mem = collections.OrderedDict((int(t), float(v)) for t, v in y_full.iloc[:a].items())
        self.pos = a  # next unseen position in y_full
        self.epoch = dict(self.mem)  # memory at the last parameter update
        self.last_label = int(y_full.index[a - 1])

    def batch(self, op):
        """the pd.Series an update-type operation passes"""
        if op[0] == "E":
            return self.y_full.iloc[self.pos:self.pos], 0
        if op[0] in ("U", "UPS"):
            k = op[1]
            b = self.y_full.iloc[self.pos:self.pos + k]
            return b, k
        back, new = op[1], op[2]
        idx = list(self.mem)[-back:]
        vals = [self.mem[t] + 100.0 + 7.0 * j for j, t in enumerate(idx)]
        b_old = pd.Series(vals, index=pd.RangeIndex(idx[0], idx[-1] + 1))
        b_new = self.y_full.iloc[self.pos:self.pos + new]
        b = pd.concat([b_old, b_new]) if new else b_old
        b.index = pd.RangeIndex(int(b.index[0]), int(b.index[0]) + len(b))
        return b, new

    def apply(self, b, consumed, up):
        if len(b) == 0:
            if up:
                self.epoch = dict(self.mem)
            return
        for t, v in b.items():
            self.mem[int(t)] = float(v)
        self.mem = collections.OrderedDict(sorted(self.mem.items()))
        self.pos += consumed
        self.last_label = int(b.index[-1])
        if up:
            self.epoch = dict(self.mem)

    def mem_series(self):
        ks = list(self.mem)
        return pd.Series([self.mem[k] for k in ks], index=pd.RangeIndex(ks[0], ks[-1] + 1))


def _build(spec, y_full, a, hist, fh_fit, res=None, tag=""):
    """fresh object + replay; returns (forecaster, Sim, last param digest before last op)"""
    f = fmenu.build(spec)
    sim = Sim(y_full, a)
    f.fit(y_full.iloc[:a].copy(), fh=fh_fit)
    pd_before = None
    for op in hist:
        pd_before = canon.param_digest(f)
        if op[0] == "UPS":
            b, consumed = sim.batch(op)
            up = op[2] if len(op) > 2 else True
            sim.ups_ret = f.update_predict_single(b.copy(),
                                                  fh=fh_fit if fh_fit is not None else [1, 2],
                                                  update_params=up)
            sim.apply(b, consumed, up)
        else:
            b, consumed = sim.batch(op)
            up = op[-1]
            f.update(b.copy(), update_params=up)
            sim.apply(b, consumed, up)
    return f, sim, pd_before


def _predictions(f, fh_fit):
    out = []
    if fh_fit is not None:
        p = f.predict()
        out.append(([int(i) for i in p.index], [float(v) for v in p.values]))
    else:
        for fh in FHS:
            p = f.predict(fh)
            out.append(([int(i) for i in p.index], [float(v) for v in p.values]))
    return out


def _naive_cf(spec, sim, epoch_n, h):
    from .c11 import naive_W, naive_ref_at

    strategy = spec[1]
    sp = spec[2] if len(spec) > 2 else 1
    W = spec[3] if len(spec) > 3 else None
    W_ = naive_W(strategy, sp, W, epoch_n)
    vals = list(sim.mem.values())
    return naive_ref_at(vals, len(vals) - 1, h, strategy, sp, W_)


def _poly_cf(spec, sim, h):
    ks = sorted(sim.epoch)
    t = np.array([k - ks[0] for k in ks], dtype=float)
    yv = np.array([sim.epoch[k] for k in ks])
    deg = spec[1]
    A = np.stack([t ** p for p in range(deg + 1)], axis=1)
    coef, *_ = np.linalg.lstsq(A, yv, rcond=None)
    tt = float(sim.last_label + h - ks[0])
    return float(sum(c * tt ** p for p, c in enumerate(coef)))


def run_case(case):
    res = Result()
    spec, refit_eq, cf = PROGRAMS[case["prog"]]
    tag = spec[0] if spec[0] != "naive" else "naive-" + spec[1]
    if spec[0] == "ttf":
        tag = "ttf-" + spec[1][0][0]
    a, start, depth = case["a"], case["start"], case["depth"]
    y_full = _series(a + 22, case["fam"], start)
    fh_fit = [1, 2] if fmenu.needs_fh_at_fit(spec) else None
    ops = _ops(case.get("menu", "q"))
    first = ops[case["first"]]
    seen = {}
    frontier = collections.deque([[first]])
    res.evals = 0
    # the root state (fit only) is checked by the shard of the first operation 0
    if case["first"] == 0:
        frontier.appendleft([])
    while frontier:
        hist = frontier.popleft()
        res.evals += 1
        o = call(_build, spec, y_full, a, hist, fh_fit)
        res.transitions += 1
        if not o.ok:
            res.violate("%s:history:raises" % tag, "an in-order call history raised",
                        observed=dict(history=hist, error=o.brief()))
            continue
        f, sim, pd_before = o.value
        # ---- invariants of this state
        bad = _check_state(res, tag, spec, f, sim, hist, fh_fit, refit_eq, cf, pd_before, y_full, a)
        if bad:
            continue
        key = canon.digest(f)
        if key in seen:
            continue
        seen[key] = hist
        res.states += 1
        if hist:
            res.nt((case["prog"], a, start, key))
        if len(hist) < depth:
            for op in ops:
                if sim.pos + 10 < len(y_full):
                    frontier.append(hist + [op])
        # terminal operations: update_predict with every cv of the menu
        if len(hist) < depth and (len(hist) <= 1 or res.states % 3 == 0) and fh_fit is None:
            for top in _terminals():
                res.transitions += 1
                res.evals += 1
                _check_update_predict(res, tag, spec, y_full, a, hist, top)
    res.outcome("%s:states=%d" % (tag, min(res.states, 50) // 10 * 10))
    return res


def _check_state(res, tag, spec, f, sim, hist, fh_fit, refit_eq, cf, pd_before, y_full, a):
    H = dict(history=hist)
    if f.cutoff != sim.last_label:
        res.violate("%s:cutoff" % tag, "cutoff is not the last label of the data passed last",
                    expected=sim.last_label, observed=dict(cutoff=f.cutoff, **H))
        return True
    if getattr(f, "_y", None) is not None and spec[0] not in ("theta",):
        got = collections.OrderedDict((int(t), float(v)) for t, v in f._y.items())
        if got != sim.mem:
            res.violate("%s:memory" % tag, "remembered observations are not the union of "
                        "everything given (later values win)", expected=dict(sim.mem),
                        observed=dict(memory=dict(got), **H))
            return True
    p1 = call(_predictions, f, fh_fit)
    p2 = call(_predictions, f, fh_fit)
    if not p1.ok or not p2.ok:
        res.violate("%s:predict:raises" % tag, "predict raised after a valid history",
                    observed=dict(error=(p1 if not p1.ok else p2).brief(), **H))
        return True
    if p1.value != p2.value:
        res.violate("%s:predict:repeat" % tag, "repeating predict changes the forecast",
                    expected=p1.value, observed=dict(second=p2.value, **H))
        return True
    for idx, _ in p1.value:
        pass
    # update_params=False leaves the fitted parameters untouched
    if hist and hist[-1][0] in ("U", "O", "E") and hist[-1][-1] is False:
        now = canon.param_digest(f)
        if now != pd_before:
            res.violate("%s:params-changed" % tag, "update(update_params=False) changed fitted "
                        "parameters", observed=H)
            return True
    # refit equivalence
    if refit_eq == "after-U":
        refit_eq = bool(hist) and hist[-1][0] in ("U", "O") and hist[-1][-1] is True
    if refit_eq and sim.epoch == dict(sim.mem) and hist:
        g = fmenu.build(spec)
        ref = call(lambda: _predictions(g.fit(sim.mem_series(), fh=fh_fit), fh_fit))
        if not ref.ok:
            res.violate("%s:fresh-fit:raises" % tag, "fresh fit on the union raised",
                        observed=dict(error=ref.brief(), **H))
            return True
        for (ia, va), (ib, vb) in zip(p1.value, ref.value):
            if ia != ib or not close(va, vb, rtol=1e-6, atol=1e-8):
                res.violate("%s:refit-equivalence" % tag, "forecasts after fit+updates differ "
                            "from a fresh fit on the union of the data",
                            expected=dict(index=ib, values=vb),
                            observed=dict(index=ia, values=va, **H))
                return True
    # closed forms with possibly stale parameters
    if cf and fh_fit is None:
        for fh, (idx, vals) in zip(FHS, p1.value):
            for h, v in zip(fh, vals):
                if cf == "naive":
                    e = _naive_cf(spec, sim, len(sim.epoch), h)
                else:
                    e = _poly_cf(spec, sim, h)
                if e is not None and not close([v], [e], rtol=1e-7, atol=1e-7):
                    res.violate("%s:closed-form" % tag, "forecast from the new cutoff differs "
                                "from the closed form with the parameters of the last fit",
                                expected=e, observed=dict(value=v, step=h, **H))
                    return True
    # update_predict_single == update + predict on a twin
    if hist and hist[-1][0] == "UPS":
        ups_up = hist[-1][2] if len(hist[-1]) > 2 else True
        if not ups_up and canon.param_digest(f) != pd_before:
            res.violate("%s:params-changed" % tag, "update_predict_single(update_params=False) "
                        "changed fitted parameters", observed=H)
            return True
        t = call(_build, spec, y_full, a, hist[:-1] + [["U", hist[-1][1], ups_up]], fh_fit)
        if t.ok:
            twin = t.value[0]
            e = twin.predict(None if fh_fit is not None else [1, 2])
            g = sim.ups_ret
            if [int(i) for i in g.index] != [int(i) for i in e.index] or \
                    not close(g.values, e.values, rtol=1e-9):
                res.violate("%s:update_predict_single" % tag, "update_predict_single differs "
                            "from update followed by predict", expected=e,
                            observed=dict(index=list(g.index), values=list(g.values), **H))
                return True
    return False


def _check_update_predict(res, tag, spec, y_full, a, hist, top):
    from sktime.forecasting.model_selection import SlidingWindowSplitter

    _, W, s, fh, up = top[:5]
    sww = not (len(top) > 5 and top[5] == "sww0")
    o = call(_build, spec, y_full, a, hist, None)
    t = call(_build, spec, y_full, a, hist, None)
    if not o.ok or not t.ok:
        return
    f, sim, _ = o.value
    twin, _, _ = t.value
    n_new = 7
    y_new = y_full.iloc[sim.pos:sim.pos + n_new]
    cv = SlidingWindowSplitter(fh=fh, window_length=W, step_length=s, start_with_window=sww)
    cut0 = f.cutoff
    before = call(lambda: twin.predict(fh))
    r = call(lambda: f.update_predict(y_new.copy(), cv, update_params=up))
    H = dict(history=hist, op=top)
    if r.ok and not up and before.ok and f.cutoff == cut0:
        # parameters of the last fit, cutoff where it was: the forecaster must forecast as before
        after = call(lambda: f.predict(fh))
        if not after.ok:
            res.violate("%s:update_predict:then-predict" % tag, "predict raises after "
                        "update_predict(update_params=False)", observed=dict(error=after.brief(), **H))
            return
        bi, ai = [int(i) for i in before.value.index], [int(i) for i in after.value.index]
        if bi != ai or not close(before.value.values, after.value.values, rtol=1e-9):
            res.violate("%s:update_predict:then-predict:%s" % (tag, "index" if bi != ai else "values"),
                        "after update_predict(update_params=False) left the cutoff where it was, predict no longer "
                        "returns the forecasts made from that cutoff with the unchanged parameters",
                        expected=dict(index=bi, values=[float(v) for v in before.value.values]),
                        observed=dict(index=ai, values=[float(v) for v in after.value.values], **H))
            return
    # reference: loop of single updates and predicts
    def loop():
        exp = []
        for win, _ in cv.split(y_new):
            twin.update(y_new.iloc[win].copy(), update_params=up)
            p = twin.predict(fh)
            exp.append((int(twin.cutoff), [int(i) for i in p.index],
                        [float(v) for v in p.values]))
        return exp

    ref = call(loop)
    if not ref.ok:
        # e.g. step > window leaves gaps in the memory that a refit cannot handle: the
        # corresponding sequence of single calls is itself not executable
        if r.ok:
            res.violate("%s:update_predict:accepts" % tag, "update_predict returns where the "
                        "sequence of single updates raises", expected=ref.brief(), observed=H)
        else:
            res.outcome("update_predict:both-raise")
        return
    if not r.ok:
        res.violate("%s:update_predict:raises" % tag, "update_predict raised where the loop of "
                    "single updates and predicts succeeds", observed=dict(error=r.brief(), **H))
        return
    if f.cutoff != cut0:
        res.violate("%s:update_predict:cutoff" % tag, "update_predict does not leave the cutoff "
                    "where it was", expected=cut0, observed=dict(cutoff=f.cutoff, **H))
        return
    exp = ref.value
    got = r.value
    if len(fh) == 1:
        gi = [int(i) for i in got.index]
        gv = [float(v) for v in np.asarray(got.values).ravel()]
        ei = [e[1][0] for e in exp]
        ev = [e[2][0] for e in exp]
        if gi != ei or not close(gv, ev, rtol=1e-9):
            res.violate("%s:update_predict:values" % tag, "update_predict differs from the loop "
                        "of single updates and predicts", expected=dict(index=ei, values=ev),
                        observed=dict(index=gi, values=gv, **H))
        return
    if isinstance(got, pd.Series):
        got = got.to_frame(name=exp[0][0])
    cols = [int(c) for c in got.columns]
    if cols != [e[0] for e in exp]:
        res.violate("%s:update_predict:columns" % tag, "columns are not the cutoffs of the "
                    "single updates", expected=[e[0] for e in exp], observed=dict(columns=cols, **H))
        return
    for j, e in enumerate(exp):
        full = got.iloc[:, j]
        col = full.reindex(e[1])
        rest = full.drop(labels=[i for i in e[1] if i in full.index])
        if not set(e[1]) <= set(int(i) for i in full.index) or rest.notna().any() or \
                not close(col.values, [float(v) for v in e[2]], rtol=1e-9):
            res.violate("%s:update_predict:values" % tag, "update_predict column differs from "
                        "the single update+predict at that cutoff",
                        expected=dict(cutoff=e[0], index=e[1], values=e[2]),
                        observed=dict(index=list(col.index), values=list(col.values), **H))
            return
