"""C17 - classifiers return well-formed probabilities consistent with their predictions (E1).

One case = (classifier configuration, label set, balance, panel, random_state); the case fits
once and judges predict_proba / predict / score on 6 fresh in-between instances plus 4 training
instances.  White-box references (time series forest, forest regressor, column ensemble) are
recomputed by the harness from the fitted attributes with plain-Python feature code.
"""
import math

import numpy as np
import pandas as pd

from ..core import Result, call
from ..refs import panel as P

ID = "C17"
LEVEL = "exploration"
ANCHORS = [
    "sktime/classification/base.py",
    "sktime/classification/interval_based/_tsf.py",
    "sktime/series_as_features/base/estimators/interval_based/_tsf.py",
    "sktime/classification/interval_based/_rise.py",
    "sktime/classification/interval_based/_stsf.py",
    "sktime/classification/dictionary_based/_boss.py",
    "sktime/classification/dictionary_based/_cboss.py",
    "sktime/classification/dictionary_based/_muse.py",
    "sktime/classification/compose/_column_ensemble.py",
    "sktime/utils/slope_and_trend.py",
    "sktime/regression/interval_based/_tsf.py",
    "sktime/regression/base.py",
]
RULE = (
    "full product: classifier menu {TSF, RISE, STSF, IndividualBOSS, BOSSEnsemble, "
    "ContractableBOSS, MUSE (1 and 2 columns), ColumnEnsemble (2 columns), IndividualTDE (1 and 2 columns)} (thorough: a second "
    "parameterisation of each) x label set {0,1},{1,2,3},{a,b},{b,a,c} (listed unsorted; + strings of unequal length for the first parameterisation),"
    "{-1,5,20},{0.5,1.5} x {balanced, 3:1} x panel (6 = 3 value families x {12,16} training "
    "instances, 24 time points - MUSE 16 in the quick tier; thorough 12 = + length 30) x random_state {0,1,2}; plus the forest regressor "
    "over panel x random_state; the two forests again on panels shifted to level 1e7 and 1e8; a "
    "column ensemble with columns given by name / callable / position applied to frames with "
    "permuted and extra columns. The apply set is 6 fresh mixtures of class prototypes + 4 "
    "training instances. VERIF_SEED (+ case index) only rotates the container of X "
    "(nested/ndarray) and of y (ndarray/pd.Series). non-trivial = fit accepted and all oracles "
    "evaluated; distinct = distinct case tuple."
)
ASSUMPTIONS = [
    "fractional float labels such as 0.5 are not in the label alphabet: the statement lists "
    "integers, strings and non-contiguous values, and scikit-learn treats fractional floats as a "
    "continuous (regression) target; float-typed labels with integral values are included",
    "every class of the label set occurs in the training panel; equal-length series",
    "ties for the maximal probability: any label of the arg-max set (tolerance 1e-12) is accepted",
    "label type = numpy dtype kind of the returned array (int / float / str) equals that of the "
    "training labels and every returned value == some training label",
    "the statement does not say which standard deviation the forest uses; the white-box "
    "reference accepts the population (ddof=0) or the sample (ddof=1) form; features are cast to "
    "float32 like the fitted trees' inputs",
    "probabilities in [0,1] up to 1e-12, rows sum to 1 up to 1e-9, white-box rtol 1e-9",
    "accuracy itself is not judged (the statement does not promise any)",
    "excluded, not runnable here (third-party drift / missing binaries, unrelated to the "
    "property): ComposableTimeSeriesForestClassifier (abstract under scikit-learn 1.7), "
    "TemporalDictionaryEnsemble / WEASEL (scikit-learn parameter validation), "
    "KNN / ElasticEnsemble / ProximityForest / ShapeDTW (Cython distances), shapelet based, "
    "ROCKET (pure-Python numba stub too slow), CIF/DrCIF/Catch22Forest/HIVE-COTE (catch22)",
]

PANELS_QUICK = [(0, 12, 24), (1, 12, 24), (2, 12, 24), (0, 16, 24), (1, 16, 24), (2, 16, 24)]
PANELS_MORE = [(0, 12, 30), (1, 14, 30), (2, 16, 30), (0, 20, 24), (1, 13, 24), (2, 15, 30)]


def gen_cases(tier, seed):
    panels = PANELS_QUICK if tier == "quick" else PANELS_QUICK + PANELS_MORE
    opts = [0] if tier == "quick" else [0, 1]
    i = 0
    # regressor first (cheapest), then classifiers
    for opt in opts:
        for p, (fam, n, L) in enumerate(panels):
            for rs in (0, 1, 2):
                i += 1
                yield dict(kind="reg", est="TSFR", opt=opt, cols=1, fam=fam, n=n, L=L, rs=rs,
                           xc=("nested", "numpy")[(i + seed) % 2],
                           yseries=bool(((i + seed) // 2) % 2))
    for name in P.CLASSIFIERS:
        for nc in P.CLF_COLS[name]:
            for opt in opts:
                for lab in P.LABEL_SETS:
                    for balanced in (True, False, "rare"):
                        if balanced == "rare" and len(P.LABEL_SETS[lab]) < 3:
                            continue  # a rare class next to two ordinary ones
                        for p, (fam, n, L) in enumerate(panels):
                            for rs in (0, 1, 2):
                                i += 1
                                # MUSE builds one SFA per window length 6..L-1 in pure
                                # Python: the quick tier gives it 16-point series
                                Lc = 16 if (name == "MUSE" and tier == "quick") else L
                                yield dict(kind="clf", est=name, opt=opt, cols=nc, labels=lab,
                                           balanced=balanced, fam=fam, n=n, L=Lc, rs=rs,
                                           xc=("nested", "numpy")[(i + seed) % 2],
                                           yseries=bool(((i + seed) // 2) % 2))
    # the same classifier object was fitted before on a panel with another (larger) label set
    for name in P.CLASSIFIERS:
        for lab in ("01", "ab", "neg"):
            for rs in (0, 1):
                fam, n, L = panels[0]
                Lc = 16 if (name == "MUSE" and tier == "quick") else L
                yield dict(kind="clf", est=name, opt=0, cols=P.CLF_COLS[name][-1], labels=lab,
                           balanced=True, fam=fam, n=n, L=Lc, rs=rs, xc="nested", yseries=False,
                           prefit=True)
    # string labels of unequal length (fixed-width numpy string arrays cut longer labels)
    for name in P.CLASSIFIERS:
        for lab in ("uneq2", "uneq3"):
            for rs in (0, 1):
                for p_, (fam, n, L) in enumerate(panels[:2]):
                    Lc = 16 if (name == "MUSE" and tier == "quick") else L
                    yield dict(kind="clf", est=name, opt=0, cols=P.CLF_COLS[name][-1], labels=lab,
                               balanced=True, fam=fam, n=n, L=Lc, rs=rs,
                               xc=("nested", "numpy")[(rs + seed) % 2], yseries=bool(p_))
    # a column ensemble one of whose entries is "drop" (skipped at fit)
    for lab in ("01", "bac"):
        for rs in (0, 1):
            fam, n, L = panels[0]
            yield dict(kind="clf", est="CENS", opt=2, cols=2, labels=lab, balanced=True, fam=fam,
                       n=n, L=L, rs=rs, xc="nested", yseries=False)
            yield dict(kind="clf", est="CENS", opt=3, cols=2, labels=lab, balanced=True, fam=fam,
                       n=n, L=L, rs=rs, xc="nested", yseries=False)
    # exact ties: one series occurs in the training panel under two labels that are NOT the
    # first of classes_, and the apply set contains it (vote ties between non-leading classes)
    for name in ("BOSS", "IBOSS", "CBOSS", "TSF"):
        for lab in ("123", "bac", "neg", "four"):
            for rs in range(6):
                fam, n, L = panels[rs % 3]
                yield dict(kind="clf", est=name, opt=0, cols=1, labels=lab, balanced=True,
                           fam=fam, n=n, L=L, rs=rs, xc="nested", yseries=False, dup=True)
    # weakly separated classes: the members of a small BOSS ensemble disagree, so that vote ties
    # between classes other than the first of classes_ occur
    for lab in ("four", "fourstr"):
        for noise in range(20):
            for msize in (2, 4):
                yield dict(kind="bossties", labels=lab, noise=noise, msize=msize)
    # series whose level is large compared with their variation (one-pass moment formulas
    # cancel there): the forests' white-box oracle on panels shifted by 1e7 / 1e8
    for level in (1e7, 1e8):
        for fam, n, L in panels[:3]:
            for rs in (0, 1):
                for lab in ("01", "bac"):
                    yield dict(kind="clf", est="TSF", opt=0, cols=1, labels=lab, balanced=True,
                               fam=fam, n=n, L=L, rs=rs, xc="nested", yseries=False, level=level)
                yield dict(kind="reg", est="TSFR", opt=0, cols=1, fam=fam, n=n, L=L, rs=rs,
                           xc="nested", yseries=False, level=level)
    # column ensemble with columns specified by NAME (list, scalar-in-list, callable) applied to
    # frames whose columns are in another order or that carry extra columns
    for spec in ("names", "callable", "ints"):
        for frame in ("same", "permuted", "extra"):
            if spec == "ints" and frame != "same":
                continue
            for lab in ("01", "bac"):
                for rs in (0, 1):
                    fam, n, L = panels[0]
                    yield dict(kind="censcols", spec=spec, frame=frame, labels=lab, fam=fam, n=n,
                               L=L, rs=rs)
    # the forests under n_jobs > 1 (joblib threading backend): n_estimators is not a multiple of
    # the number of jobs
    for name in ("TSF", "RISE", "STSF"):
        for nj in (2, 3):
            for lab in ("01", "bac"):
                for rs in (0, 1):
                    fam, n, L = panels[0]
                    yield dict(kind="clf", est=name, opt=0, cols=1, labels=lab, balanced=True,
                               fam=fam, n=n, L=L, rs=rs, xc="nested", yseries=False, n_jobs=nj)
    for nj in (2, 3):
        fam, n, L = panels[0]
        yield dict(kind="reg", est="TSFR", opt=0, cols=1, fam=fam, n=n, L=L, rs=0, xc="nested",
                   yseries=False, n_jobs=nj)


# ------------------------------------------------------------------------------ helpers
def _lift(X, level):
    """every value shifted by a constant level (None: unchanged)"""
    if not level:
        return X
    return [[[level + v for v in col] for col in inst] for inst in X]


def _univariate(X, col=0):
    return [x[col] for x in X]


def _forest_reference(est, X1, method):
    """mean over the fitted trees of tree.<method>(harness features of the tree's intervals);
    returns a list of acceptable references (ddof 0 and 1)"""
    refs = []
    for ddof in (0, 1):
        outs = []
        for tree, intervals in zip(est.estimators_, est.intervals_):
            F = P.tsf_features(X1, [(int(a), int(b)) for a, b in intervals], ddof)
            o = getattr(tree, method)(F)
            if method == "predict_proba":
                # place the tree's columns by label, in case a tree orders classes itself
                full = np.zeros((len(X1), len(est.classes_)))
                cl = list(est.classes_)
                for j, c in enumerate(tree.classes_):
                    full[:, cl.index(c)] = o[:, j]
                o = full
            outs.append(np.asarray(o, dtype=float))
        acc = outs[0].copy()
        for o in outs[1:]:
            acc = acc + o
        refs.append(acc / float(len(outs)))
    return refs


def run_case(case):
    import joblib

    with joblib.parallel_backend("threading"):
        return _run_case(case)


def _run_case(case):
    import warnings

    warnings.filterwarnings("ignore")
    res = Result()
    if case["kind"] == "reg":
        return _run_reg(case, res)
    if case["kind"] == "censcols":
        return _run_censcols(case, res)
    if case["kind"] == "bossties":
        return _run_bossties(case, res)
    name = case["est"]
    labels = P.LABEL_SETS.get(case["labels"]) or P.LABEL_SETS_EXTRA[case["labels"]]
    k = len(labels)
    # non-integer float labels are refused by scikit-learn's target-type check in several
    # places; keyed apart so that this one cause does not mask other fit/score failures
    fl = ":float-labels" if P.kind_of(np.array(labels)) == "float" else ""
    nc, L, fam = case["cols"], case["L"], case["fam"]
    # the rare class is the one whose label sorts first (not the largest in sort order)
    rare_k = min(range(k), key=lambda j: (str(type(labels[j])), labels[j]))
    X, ks = P.train_panel(case["n"], k, case["balanced"], nc, L, fam, rare_k)
    y = P.label_array(labels, ks, as_series=case["yseries"])
    Xa, ka = P.apply_panel(6, k, nc, L, fam)
    X, Xa = _lift(X, case.get("level")), _lift(Xa, case.get("level"))
    Xt = Xa + P.select(X, [0, 1, 2, 5])
    kt = ka + [ks[i] for i in (0, 1, 2, 5)]
    if case.get("dup"):
        order = sorted(range(k), key=lambda j: (str(type(labels[j])), labels[j]))
        ca, cb = order[1], order[-1]  # two classes that are not the first of classes_
        ia = [i for i, kk in enumerate(ks) if kk == ca]
        ib = [i for i, kk in enumerate(ks) if kk == cb]
        for a_, b_ in zip(ia[:2], ib[:2]):
            X[b_] = [list(col) for col in X[a_]]
        Xt = Xt[:8] + [X[ia[0]], X[ia[1]]]
        kt = kt[:8] + [ca, cb]
    # test labels: true ones, two of them deliberately replaced by another class
    kt_lab = list(kt)
    kt_lab[1] = (kt_lab[1] + 1) % k
    kt_lab[7] = (kt_lab[7] + 1) % k
    yt = P.label_array(labels, kt_lab, as_series=case["yseries"])
    m = len(Xt)
    mk = lambda Z: P.container(Z, case["xc"], "dim")  # noqa: E731

    clf = P.make_classifier(name, case["rs"], case["opt"], case.get("n_jobs"))
    if case.get("prefit"):
        other = ["x", "b", "zz", "a", "q"]  # five labels, none of them need to occur later
        Xo, kso = P.train_panel(case["n"] + 3, 5, True, nc, L, (fam + 1) % 3)
        call(lambda: clf.fit(mk(Xo), P.label_array(other, kso)))
    o = call(lambda: clf.fit(mk(X), y))
    res.outcome("%s:fit:%s" % (name, o.kind))
    if not o.ok:
        res.violate(name + ":fit:raises" + fl, "fit raised on a valid labelled panel",
                    observed=o.brief() + " | " + (o.tb or "")[-300:])
        return res

    # classes_
    want = sorted(set(labels))
    got_classes = list(getattr(clf, "classes_", []))
    classes_ok = len(got_classes) == k and all(a == b for a, b in zip(got_classes, want))
    if not classes_ok:
        res.violate(name + ":classes", "classes_ is not the sorted training label set",
                    expected=want, observed=got_classes)

    # predict_proba
    o = call(lambda: clf.predict_proba(mk(Xt)))
    if not o.ok:
        res.outcome("%s:proba:%s" % (name, o.kind))
        res.violate(name + ":proba:raises", "predict_proba raised", observed=o.brief())
        return res
    Pm = o.value
    Pm = np.asarray(Pm.values if isinstance(Pm, pd.DataFrame) else Pm)
    if Pm.ndim != 2 or Pm.shape != (m, k):
        res.violate(name + ":proba:shape", "predict_proba is not (n_instances, n_classes seen in "
                    "training)", expected=[m, k], observed=list(Pm.shape))
        return res
    Pm = Pm.astype(float)
    if not np.all(np.isfinite(Pm)) or Pm.min() < -1e-12 or Pm.max() > 1 + 1e-12:
        res.violate(name + ":proba:range", "probability outside [0,1] or not finite",
                    observed=[float(np.nanmin(Pm)), float(np.nanmax(Pm))])
    sums = [math.fsum(r) for r in Pm.tolist()]
    bad = [i for i, s in enumerate(sums) if not abs(s - 1.0) <= 1e-9]
    if bad:
        res.violate(name + ":proba:rowsum", "probabilities of an instance do not sum to 1",
                    expected=1.0, observed=dict(instance=bad[0], row=Pm[bad[0]].tolist()))

    # predict
    o = call(lambda: clf.predict(mk(Xt)))
    if not o.ok:
        res.outcome("%s:predict:%s" % (name, o.kind))
        res.violate(name + ":predict:raises", "predict raised", observed=o.brief())
        return res
    pred = o.value
    pred_l = list(np.asarray(pred).ravel().tolist()) if not isinstance(pred, list) else pred
    if len(pred_l) != m:
        res.violate(name + ":predict:rows", "predict does not return one label per instance",
                    expected=m, observed=len(pred_l))
        return res
    foreign = [v for v in pred_l if not any(v == w for w in labels)]
    if foreign:
        res.violate(name + ":predict:label", "predict returned a value that is not a training "
                    "label", expected=labels, observed=foreign[:4])
    else:
        kp, ky = P.kind_of(np.asarray(pred)), P.kind_of(np.asarray(y))
        if kp != ky:
            res.violate(name + ":predict:type", "predicted labels are not of the user's label "
                        "type", expected=ky, observed=kp)
        if classes_ok:
            for i in range(m):
                top = Pm[i].max()
                allowed = [want[j] for j in range(k) if Pm[i, j] >= top - 1e-12]
                if len(allowed) > 1:
                    res.outcome("clf:tie")
                if not any(pred_l[i] == a for a in allowed):
                    res.violate(name + ":predict:argmax", "predicted label does not attain the "
                                "maximal predicted probability",
                                expected=dict(proba=Pm[i].tolist(), classes=want, allowed=allowed),
                                observed=pred_l[i])
                    break

    # score
    o = call(lambda: clf.score(mk(Xt), yt))
    if not o.ok:
        res.violate(name + ":score:raises" + fl, "score raised", observed=o.brief())
    else:
        yt_l = list(np.asarray(yt).tolist())
        frac = sum(1 for a, b in zip(pred_l, yt_l) if a == b) / float(m)
        if not abs(float(o.value) - frac) <= 1e-12:
            res.violate(name + ":score", "score is not the fraction of matching predictions",
                        expected=frac, observed=float(o.value))
        res.outcome("clf:score=%s" % ("0" if frac == 0 else "1" if frac == 1 else "mid"))

    # white-box references
    if name == "TSF":
        o = call(lambda: _forest_reference(clf, _univariate(Xt), "predict_proba"))
        if not o.ok:
            res.violate("TSF:whitebox", "fitted trees / intervals_ cannot be re-evaluated",
                        observed=o.brief())
        elif not any(np.allclose(Pm, r, rtol=1e-9, atol=1e-12) for r in o.value):
            d = int(np.argmax(np.abs(Pm - o.value[0]).max(axis=1)))
            res.violate("TSF:whitebox", "predict_proba is not the mean of the fitted trees' "
                        "probabilities on mean/std/slope of intervals_",
                        expected=dict(instance=d, proba=o.value[0][d].tolist()),
                        observed=Pm[d].tolist())
        res.evals += 1
    if name in ("BOSS", "CBOSS") and classes_ok:
        # column j must carry the (weighted) votes of the fitted members for classes_[j]
        def votes():
            ws = list(getattr(clf, "weights", [])) or [1.0] * len(clf.classifiers)
            acc = np.zeros((m, k))
            for w, member in zip(ws, clf.classifiers):
                for i, v in enumerate(member.predict(mk(Xt))):
                    acc[i, got_classes.index(v)] += w
            return acc / float(np.sum(ws[:len(clf.classifiers)]))

        o = call(votes)
        if not o.ok:
            res.violate(name + ":whitebox", "members cannot be re-evaluated", observed=o.brief())
        elif not np.allclose(Pm, o.value, rtol=1e-9, atol=1e-12):
            d = int(np.argmax(np.abs(Pm - o.value).max(axis=1)))
            res.violate(name + ":whitebox", "probability columns do not carry the members' "
                        "votes for the corresponding entry of classes_",
                        expected=dict(instance=d, classes=[str(c) for c in got_classes],
                                      votes=o.value[d].tolist()), observed=Pm[d].tolist())
        res.evals += 1
    if name == "CENS":
        def members():
            outs = []
            for _, est, col in clf.estimators_:
                cols = [col] if isinstance(col, int) else list(col)
                Zc = [[x[c] for c in cols] for x in Xt]
                outs.append(np.asarray(est.predict_proba(mk(Zc)), dtype=float))
            acc = outs[0].copy()
            for o_ in outs[1:]:
                acc = acc + o_
            return acc / float(len(outs)), len(outs)

        o = call(members)
        if not o.ok:
            res.violate("CENS:whitebox", "members cannot be re-evaluated on their own columns",
                        observed=o.brief())
        else:
            ref, nm = o.value
            if nm != 2:
                res.violate("CENS:whitebox", "number of fitted members (entries that are not "
                            "'drop')", expected=2, observed=nm)
            elif not np.allclose(Pm, ref, rtol=1e-9, atol=1e-12):
                d = int(np.argmax(np.abs(Pm - ref).max(axis=1)))
                res.violate("CENS:whitebox", "probabilities are not the mean of the members' "
                            "probabilities on their own columns",
                            expected=dict(instance=d, proba=ref[d].tolist()),
                            observed=Pm[d].tolist())
        res.evals += 1
    res.nt(tuple(sorted((a, str(b)) for a, b in case.items())))
    res.outcome("%s:done" % name)
    return res


def _weak_panel(noise, k, n_per_class, L):
    """classes differ only by a weak sinusoid under a deterministic hash noise of unit size"""
    import math

    X, ks = [], []
    for j in range(n_per_class):
        for c in range(k):
            i = j * k + c
            row = []
            for t in range(L):
                h = math.sin(12.9898 * (i + 1) + 78.233 * (t + 1) + 37.719 * (noise + 1)) * 43758.5453
                row.append(0.6 * math.sin(2 * math.pi * (c + 1) * t / L) + 2.4 * (h - math.floor(h) - 0.5))
            X.append([row])
            ks.append(c)
    return X, ks


def _run_bossties(case, res):
    from sktime.classification.dictionary_based import BOSSEnsemble

    labels = P.LABEL_SETS_EXTRA[case["labels"]]
    k = len(labels)
    X, ks = _weak_panel(case["noise"], k, 8, 24)
    y = P.label_array(labels, ks)
    Xtr, ytr, Xte = X[:16], y[:16], X[16:]
    clf = BOSSEnsemble(max_ensemble_size=case["msize"], min_window=8, random_state=case["noise"])
    o = call(lambda: clf.fit(P.to_nested(Xtr, "dim"), ytr))
    if not o.ok:
        res.violate("BOSS:ties:fit:raises", "fit raised", observed=o.brief())
        return res
    o = call(lambda: (np.asarray(clf.predict_proba(P.to_nested(Xte, "dim")), dtype=float),
                      np.asarray(clf.predict(P.to_nested(Xte, "dim")))))
    if not o.ok:
        res.violate("BOSS:ties:predict:raises", "predict / predict_proba raised",
                    observed=o.brief())
        return res
    Pm, pred = o.value
    classes = list(clf.classes_)
    res.evals += len(Xte)
    ties = 0
    for i in range(len(Xte)):
        top = Pm[i].max()
        allowed = [classes[j] for j in range(len(classes)) if Pm[i][j] >= top - 1e-12]
        if len(allowed) > 1 and classes[0] not in allowed:
            ties += 1
        if pred[i] not in allowed:
            res.violate("BOSS:argmax", "predict returns a label whose predicted probability is "
                        "not maximal (vote tie)", expected=dict(classes=[str(c) for c in classes],
                                                                proba=Pm[i].tolist()),
                        observed=str(pred[i]))
            return res
    res.outcome("bossties:ties=%d" % min(ties, 3))
    if ties:
        res.nt(tuple(sorted((a, str(b)) for a, b in case.items())))
    return res


def _run_censcols(case, res):
    from sktime.classification.compose import ColumnEnsembleClassifier
    from sktime.classification.interval_based import TimeSeriesForestClassifier

    labels = P.LABEL_SETS[case["labels"]]
    k, L, fam, rs = len(labels), case["L"], case["fam"], case["rs"]
    X, ks = P.train_panel(case["n"], k, True, 3, L, fam, 0)
    y = P.label_array(labels, ks)
    Xa, _ = P.apply_panel(6, k, 3, L, fam)
    names = ["a", "b", "c"]

    def frame(Z, order):
        F = P.to_nested(Z, "dim")
        F.columns = names
        if order == "permuted":
            F = F[["c", "a", "b"]]
        elif order == "extra":
            F.insert(0, "z", F["a"].copy())
            F = F[["z", "c", "b", "a"]]
        return F

    col0, col1 = {"names": (["b"], ["c", "a"]), "ints": ([1], [2, 0]),
                  "callable": (lambda F: ["b"], lambda F: ["c", "a"])}[case["spec"]]
    # the second member sees two columns: a forest on the first of its columns
    clf = ColumnEnsembleClassifier([
        ("m0", TimeSeriesForestClassifier(n_estimators=4, random_state=rs), col0),
        ("m1", _FirstColumn(TimeSeriesForestClassifier(n_estimators=3, random_state=rs + 11)),
         col1)])
    o = call(lambda: clf.fit(frame(X, "same"), y))
    res.outcome("CENS:cols:fit:" + o.kind)
    if not o.ok:
        res.violate("CENS:cols:fit:raises", "fit raised", observed=o.brief())
        return res
    o = call(lambda: np.asarray(clf.predict_proba(frame(Xa, case["frame"])), dtype=float))
    if not o.ok:
        res.violate("CENS:cols:proba:raises", "predict_proba raised on a frame that contains the "
                    "named columns", observed=o.brief())
        return res
    Pm = o.value
    own = (["b"], ["c", "a"])
    F = frame(Xa, "same")
    outs = [np.asarray(est.predict_proba(F[own[j]]), dtype=float)
            for j, (_, est, _) in enumerate(clf.estimators_)]
    ref = (outs[0] + outs[1]) / 2.0
    res.evals += 1
    res.nt(tuple(sorted((a, str(b)) for a, b in case.items())))
    if Pm.shape != ref.shape or not np.allclose(Pm, ref, rtol=1e-9, atol=1e-12):
        res.violate("CENS:cols:whitebox", "probabilities are not the mean of the members' "
                    "probabilities on their own (named) columns when the frame's columns are %s"
                    % case["frame"], expected=ref[:2].tolist(), observed=Pm[:2].tolist())
    return res


class _FirstColumn:
    """classifier double: the wrapped classifier on the first of the columns it is given
    (distinguishes ['c', 'a'] from ['a', 'c'])"""

    def __init__(self, inner):
        self.inner = inner

    def get_params(self, deep=True):
        return {"inner": self.inner}

    def set_params(self, **kw):
        self.inner = kw.get("inner", self.inner)
        return self

    def fit(self, X, y):
        self.inner.fit(X.iloc[:, [0]], y)
        self.classes_ = self.inner.classes_
        return self

    def predict_proba(self, X):
        return self.inner.predict_proba(X.iloc[:, [0]])

    def predict(self, X):
        return self.inner.predict(X.iloc[:, [0]])


def _run_reg(case, res):
    L, fam = case["L"], case["fam"]
    X, ks = P.train_panel(case["n"], 3, True, 1, L, fam)
    yv = P.regression_target(X, ks)
    y = pd.Series(yv) if case["yseries"] else np.array(yv)
    Xa, _ = P.apply_panel(6, 3, 1, L, fam)
    X, Xa = _lift(X, case.get("level")), _lift(Xa, case.get("level"))
    Xt = Xa + P.select(X, [0, 1, 2, 5])
    mk = lambda Z: P.container(Z, case["xc"], "dim")  # noqa: E731
    reg = P.make_regressor(case["rs"], case["opt"], case.get("n_jobs"))
    o = call(lambda: reg.fit(mk(X), y))
    res.outcome("TSFR:fit:" + o.kind)
    if not o.ok:
        res.violate("TSFR:fit:raises", "fit raised", observed=o.brief())
        return res
    o = call(lambda: np.asarray(reg.predict(mk(Xt)), dtype=float))
    if not o.ok:
        res.violate("TSFR:predict:raises", "predict raised", observed=o.brief())
        return res
    pr = o.value
    if pr.shape != (len(Xt),) or not np.all(np.isfinite(pr)):
        res.violate("TSFR:predict:shape", "predict is not one finite number per instance",
                    expected=[len(Xt)], observed=list(pr.shape))
        return res
    o = call(lambda: _forest_reference(reg, _univariate(Xt), "predict"))
    if not o.ok:
        res.violate("TSFR:whitebox", "fitted trees / intervals_ cannot be re-evaluated",
                    observed=o.brief())
    elif not any(np.allclose(pr, r, rtol=1e-9, atol=1e-12) for r in o.value):
        d = int(np.argmax(np.abs(pr - o.value[0])))
        res.violate("TSFR:whitebox", "prediction is not the mean of the fitted trees' "
                    "predictions on mean/std/slope of intervals_",
                    expected=dict(instance=d, value=float(o.value[0][d])), observed=float(pr[d]))
    res.nt(tuple(sorted((a, str(b)) for a, b in case.items())))
    res.outcome("TSFR:done")
    return res
