"""C18 - .ts writer/loader round trip, cross-format agreement, bundled dataset loaders (E1).

part a  write_dataframe_to_tsfile -> text -> load_from_tsfile_to_dataframe
        oracle: independent tokenizer of the written text (tok_ts) + the caller's own panel
part b  one bundled dataset, several file formats (.ts/.arff/.tsv): every loader returns
        exactly float(token) of its own file (independent tokenizers), and the panels agree
part c  load_<dataset>(split, return_X_y): oracle = tok_ts(TRAIN file) ++ tok_ts(TEST file)
"""
import os
import shutil
import tempfile

import numpy as np
import pandas as pd

from ..core import Result, call

ID = "C18"
LEVEL = "exploration"
ANCHORS = [
    "sktime/utils/data_io.py",
    "sktime/datasets/base.py",
    "sktime/datasets/data/*/*",
]
RULE = (
    "a: full product instances 1..3 x series length {2,3,5} (thorough: 1..4 x {2,3,5,8,12}) x 11 value families (0, +-1.5, "
    "1e-7, 123456.789, 1e10, -3.25e-4, all of them mixed, position-tagged values at three "
    "magnitudes, tagged int64) x labels {absent, 1/2, a/B, Yes/no} x comment {none, short, "
    "wrapping (with '@data', ':' and ',' inside)} x (equal_length, series_length) in "
    "{(F,-1),(F,L),(T,L),(T,-1)}; labels also non-ASCII (accented, Greek); fresh temp dir per case "
    "(+ 216 cases in which an earlier write of another panel to the same path and problem name precedes the judged write). VERIF_SEED + case index only "
    "rotate representation details: index of the inner series / of the frame, list vs "
    "ndarray class_value_list, problem name. b: every (bundled dataset dir, TRAIN|TEST) that "
    "ships >= 2 of .ts/.arff/.tsv. c: 7 load_<name> functions + load_UCR_UEA_dataset for the "
    "other bundled .ts directories x split {None,train,test} x return_X_y {True,False}; one "
    "loader call per case, both return forms are judged against the same independent "
    "tokenisation of the TRAIN/TEST files. non-trivial = the code under test returned a "
    "panel that was compared value by value; distinct by full configuration."
)
ASSUMPTIONS = [
    "univariate=True, timestamp=False only (the quantifier says univariate equal-length "
    "panels; the writer documents that timestamps are unsupported)",
    "'precision the writer prints' = half a unit of the last digit of each printed token, "
    "whatever number of digits pandas' Series.to_string chooses; no minimum number of "
    "significant digits is demanded",
    "non-ASCII labels are only judged when the platform's preferred encoding is UTF-8 (the "
    "writer uses the platform default, the parser UTF-8)",
    "labels are compared case-insensitively and as str (the .ts parser lower-cases every "
    "line, read_csv turns UCR .tsv labels into integers): the statement allows the parser's "
    "case rule and does not decide the label dtype",
    "(equal_length=True, series_length=-1) may be rejected by the writer with ValueError "
    "(documented guard); if accepted it is judged like any other case",
    "cross-format: the bundled files print the same series with different numbers of "
    "decimals (.ts 4-5, .arff/.tsv 7-8), so 'same panel' = each loader returns exactly the "
    "numbers printed in its own file and two formats agree within one unit of the last "
    "printed digit of both tokens (the files hold doubly rounded decimals, e.g. 0.0043964722 "
    "vs 0.004397, which is a property of the data, not of the parsers)",
    "bundled loaders: row labels of the returned frame (duplicated 0..n-1 for split=None), "
    "the container type of y (ndarray vs Series) and the inner series index are not decided "
    "by the statement; rows are compared by position",
    "load_from_long_to_dataframe has no writer and no bundled file; it is outside the "
    "statement and not exercised",
    "the no-label form of load_from_tsfile_to_dataframe may return the frame alone or a "
    "tuple whose first item is the frame",
]

BASE = [0.0, 1.5, -1.5, 1e-7, 123456.789, 1e10, -3.25e-4]
FAMS = ["zero", "pm1.5", "tiny", "mid", "big", "negsmall", "mixed", "tagged", "tagged_tiny",
        "tagged_big", "tagged_int"]
LABELSETS = [None, ["1", "2"], ["a", "B"], ["Yes", "no"], [0, 1], [1, 0], [0, 2],
             ["c#1", "c#2"], [1234567.0, 1234568.0], [22050.25, 0.5],
             ["caf\u00e9", "gr\u00f6\u00dfe"], ["\u03b2", "x"]]
COMMENTS = {
    "none": None,
    "short": "a short comment",
    "long": "This comment is long enough to be wrapped over several lines by the writer; it "
            "also holds things a parser could trip over: @data @classLabel true x y, a "
            "colon : a comma , 1.5,2.5:Yes and a question mark ? (end).",
}
LENOPTS = ["none", "len", "eq+len", "eq"]
LOADERS = ["load_arrow_head", "load_gunpoint", "load_italy_power_demand", "load_basic_motions",
           "load_japanese_vowels", "load_osuleaf", "load_acsf1"]
LOADER_DIR = dict(load_arrow_head="ArrowHead", load_gunpoint="GunPoint",
                  load_italy_power_demand="ItalyPowerDemand", load_basic_motions="BasicMotions",
                  load_japanese_vowels="JapaneseVowels", load_osuleaf="OSULeaf",
                  load_acsf1="ACSF1")


def _datadir():
    import sktime.datasets.base as b

    return os.path.join(b.MODULE, b.DIRNAME)


def gen_cases(tier, seed):
    i = 0
    for n in ((1, 2, 3) if tier == "quick" else (1, 2, 3, 4)):
        for L in ((2, 3, 5) if tier == "quick" else (2, 3, 5, 8, 12)):
            for fam in FAMS:
                for labels in LABELSETS:
                    for com in ("none", "short", "long"):
                        for lo in LENOPTS:
                            i += 1
                            r = i + seed
                            yield dict(kind="a", n=n, L=L, fam=fam, labels=labels, comment=com,
                                       lenopt=lo, rep=dict(inner=("range", "from5")[r % 2],
                                                           outer=("range", "from10")[(r // 2) % 2],
                                                           cont=("list", "array")[(r // 4) % 2],
                                                           name=("p", "Sample_Data")[(r // 8) % 2]))
    # a file of the same name already exists (an earlier write of another panel to the same
    # path / problem name, with or without a comment): the later write must replace it
    for n in (1, 2, 3):
        for L in (2, 3):
            for fam in ("mixed", "tagged"):
                for labels in LABELSETS[:3]:
                    for com in ("none", "short", "long"):
                        for pre in ("none", "short"):
                            i += 1
                            r = i + seed
                            yield dict(kind="a", n=n, L=L, fam=fam, labels=labels, comment=com,
                                       lenopt=LENOPTS[i % 3], pre=pre,
                                       rep=dict(inner=("range", "from5")[r % 2], outer="range",
                                                cont=("list", "array")[(r // 4) % 2],
                                                name=("p", "Sample_Data")[(r // 8) % 2]))
    # long series (numpy abbreviates the printed form of arrays with more than 1000 elements)
    for L in (999, 1000, 1001, 1500):
        for fam in FAMS:
            for labels in LABELSETS[:2]:
                i += 1
                r = i + seed
                yield dict(kind="a", n=2, L=L, fam=fam, labels=labels, comment="none",
                           lenopt=LENOPTS[i % len(LENOPTS)],
                           rep=dict(inner=("range", "from5")[r % 2], outer="range",
                                    cont=("list", "array")[(r // 4) % 2], name="p"))
    root = _datadir()
    dirs = sorted(d for d in os.listdir(root) if os.path.isdir(os.path.join(root, d)))
    ts_dirs = []
    for d in dirs:
        for part in ("TRAIN", "TEST"):
            fmts = [e for e in ("ts", "arff", "tsv")
                    if os.path.isfile(os.path.join(root, d, "%s_%s.%s" % (d, part, e)))]
            if len(fmts) >= 2:
                yield dict(kind="b", dataset=d, part=part, formats=fmts)
        if all(os.path.isfile(os.path.join(root, d, "%s_%s.ts" % (d, p))) for p in ("TRAIN", "TEST")):
            ts_dirs.append(d)
    targets = [(f, LOADER_DIR[f]) for f in LOADERS]
    targets += [("load_UCR_UEA_dataset", d) for d in ts_dirs if d not in LOADER_DIR.values()]
    forms = [(sp, r) for sp in (None, "train", "test") for r in (True, False)]
    for fn, d in targets:
        for split, rxy in forms:
            yield dict(kind="c", loader=fn, dataset=d, split=split, return_X_y=rxy)
    # call histories in one process: every ordered pair (thorough: triple) of loader calls; the
    # last call is judged exactly like a first call (loaders must not share state between calls)
    for fn, d in targets:
        for pre in forms:
            for split, rxy in forms:
                yield dict(kind="c", loader=fn, dataset=d, split=split, return_X_y=rxy,
                           pre=[list(pre)])
        if tier != "quick":
            for pre1 in forms:
                for pre2 in forms:
                    for split, rxy in (forms[0], forms[3]):
                        yield dict(kind="c", loader=fn, dataset=d, split=split, return_X_y=rxy,
                                   pre=[list(pre1), list(pre2)])


# ------------------------------------------------------------- independent tokenizers
# .ts format (timeseriesclassification.com / sktime loading_data notebook): '#' lines are
# comments; '@tag value...' header lines, tags case-insensitive; '@data' starts the cases;
# one case per line, dimensions separated by ':', observations by ',', and - iff
# '@classLabel true ...' - the class value after the last ':'; '?' is a missing value.
def tok_ts(text):
    header, cases, in_data = [], [], False
    for raw in text.split("\n"):
        s = raw.strip()
        if not s or s[0] in "#%":
            continue
        if not in_data:
            if s[0] == "@":
                parts = s.split()
                if parts[0].lower() == "@data":
                    in_data = True
                else:
                    header.append((parts[0][1:], parts[1:]))
            continue
        labelled = any(t.lower() == "classlabel" and v[:1] and v[0].lower() == "true"
                       for t, v in header)
        fields = s.split(":")
        label = fields.pop().strip() if labelled else None
        dims = [[t.strip() for t in f.split(",")] if f.strip() else [] for f in fields]
        cases.append((dims, label))
    return header, cases


def tok_arff(text):
    """time-series .arff: '%' comments, '@...' header, after '@data' one case per line:
    v,v,...,label  or  'v,..\\nv,..',label  (relational = one quoted dimension per \\n)"""
    cases, in_data = [], False
    for raw in text.split("\n"):
        s = raw.strip()
        if not s or s[0] == "%":
            continue
        if not in_data:
            in_data = s.lower().startswith("@data")
            continue
        if s[0] == "'":
            body, _, label = s[1:].rpartition("',")
            dims = [[t.strip() for t in d.split(",")] for d in body.split("\\n")]
        else:
            toks = s.split(",")
            dims, label = [[t.strip() for t in toks[:-1]]], toks[-1]
        cases.append((dims, label.strip()))
    return cases


def tok_tsv(text):
    """UCR .tsv: one case per line, tab separated, first field = class label"""
    cases = []
    for raw in text.split("\n"):
        if raw.strip():
            toks = raw.strip("\r\n").split("\t")
            cases.append(([[t.strip() for t in toks[1:]]], toks[0].strip()))
    return cases


def tokval(tok):
    return float("nan") if tok in ("?", "") else float(tok)


def ulp(tok):
    """one unit of the last printed digit of a decimal token"""
    mant, _, exp = tok.strip().lower().partition("e")
    frac = mant.split(".")[1] if "." in mant else ""
    return 10.0 ** ((int(exp) if exp else 0) - len(frac))


def same(a, b):
    a = np.asarray(a, dtype=float)
    b = np.asarray(b, dtype=float)
    return a.shape == b.shape and bool(np.all((a == b) | ((a != a) & (b != b))))


def lab_eq(a, b):
    return str(a).strip().lower() == str(b).strip().lower()


def _read(path):
    with open(path, "r", encoding="utf-8") as f:
        return f.read()


def compare_panel(res, key, X, y, cases, what):
    """loader output (frame X of series, labels y or None) against tokenised cases;
    returns True when everything matched"""
    if len(X) != len(cases):
        res.violate(key + ":count", what + ": number of instances", expected=len(cases),
                    observed=len(X))
        return False
    nd = len(cases[0][0]) if cases else 0
    y = None if y is None else list(y)
    if X.shape[1] != nd:
        res.violate(key + ":dims", what + ": number of dimensions", expected=nd,
                    observed=list(X.columns))
        return False
    for i, (dims, label) in enumerate(cases):
        for d, toks in enumerate(dims):
            got = X.iloc[i, d]
            got = np.asarray(got.values if hasattr(got, "values") else got, dtype=float)
            exp = [tokval(t) for t in toks]
            if len(got) != len(exp):
                res.violate(key + ":length", what + ": series length (instance %d dim %d)"
                            % (i, d), expected=len(exp), observed=len(got))
                return False
            if not same(got, exp):
                res.violate(key + ":value", what + ": values != float(printed token) "
                            "(instance %d dim %d)" % (i, d), expected=exp[:8],
                            observed=list(got[:8]))
                return False
        if label is not None:
            if y is None or i >= len(y) or not lab_eq(y[i], label):
                res.violate(key + ":label", what + ": class label of instance %d" % i,
                            expected=label, observed=None if y is None else y[max(0, i - 2):i + 3])
                return False
    if y is not None and len(y) != len(cases):
        res.violate(key + ":label", what + ": number of labels", expected=len(cases),
                    observed=len(y))
        return False
    return True


# ----------------------------------------------------------------------------- part a
def _value(fam, i, t, L):
    k = i * L + t
    if fam == "zero":
        return 0.0
    if fam == "pm1.5":
        return 1.5 if k % 2 == 0 else -1.5
    if fam == "tiny":
        return 1e-7
    if fam == "mid":
        return 123456.789
    if fam == "big":
        return 1e10
    if fam == "negsmall":
        return -3.25e-4
    if fam == "mixed":
        return BASE[(3 * k + L) % 7]
    if fam == "tagged":
        return 100.0 * (i + 1) + (t + 1) + 0.25
    if fam == "tagged_tiny":
        return 1e-7 * (10 * (i + 1) + t + 1)
    if fam == "tagged_big":
        return 1e10 + 1e6 * (10 * (i + 1) + t + 1)
    if fam == "tagged_int":
        return 100 * (i + 1) + t + 1
    raise ValueError(fam)


def _panel(case):
    n, L, fam, rep = case["n"], case["L"], case["fam"], case["rep"]
    rows, vals = [], []
    for i in range(n):
        v = [_value(fam, i, t, L) for t in range(L)]
        vals.append([float(x) for x in v])
        idx = pd.RangeIndex(L) if rep["inner"] == "range" else pd.Index(range(5, 5 + L))
        rows.append(pd.Series(v, index=idx, dtype="int64" if fam == "tagged_int" else "float64"))
    oidx = pd.RangeIndex(n) if rep["outer"] == "range" else pd.Index(range(10, 10 + n))
    X = pd.DataFrame({"dim_0": pd.Series(rows, index=oidx, dtype=object)})
    return X, vals


def _part_a(case, res):
    from sktime.utils.data_io import load_from_tsfile_to_dataframe, write_dataframe_to_tsfile

    n, L, labels, rep = case["n"], case["L"], case["labels"], case["rep"]
    X, vals = _panel(case)
    kw = dict(problem_name=rep["name"])
    yl = None
    if labels is not None:
        yl = [labels[0] if i == 0 else labels[1] for i in range(n)]
        kw["class_label"] = list(labels)
        kw["class_value_list"] = list(yl) if rep["cont"] == "list" else np.array(yl)
    if COMMENTS[case["comment"]] is not None:
        kw["comment"] = COMMENTS[case["comment"]]
    lo = case["lenopt"]
    if lo in ("len", "eq+len"):
        kw["series_length"] = L
    if lo in ("eq+len", "eq"):
        kw["equal_length"] = True
    lk = "nolabel" if labels is None else "labels"
    if labels is not None and not all(str(x).isascii() for x in labels):
        import locale

        if locale.getpreferredencoding(False).lower().replace("-", "") != "utf8":
            res.outcome("a:skipped:non-ascii-labels-under-non-utf8-locale")
            return res
    tmp = tempfile.mkdtemp(prefix="c18_")
    try:
        if case.get("pre"):
            c2 = dict(case, n=n + 1, fam="big")
            X2, _ = _panel(c2)
            kw2 = dict(problem_name=rep["name"])
            if labels is not None:
                kw2["class_label"] = list(labels)
                kw2["class_value_list"] = [labels[1]] * (n + 1)
            if COMMENTS[case["pre"]] is not None:
                kw2["comment"] = COMMENTS[case["pre"]]
            w0 = call(write_dataframe_to_tsfile, X2, tmp, **kw2)
            res.evals += 1
            res.outcome("a:prewrite:" + w0.kind)
        w = call(write_dataframe_to_tsfile, X, tmp, **kw)
        if lo == "eq":
            res.outcome("a:write:eq-without-length:" + w.kind)
            if w.is_a(ValueError):
                return res
        if not w.ok:
            res.outcome("a:write:" + w.kind)
            res.violate("a:write:raises", "writer rejects a valid panel/option set",
                        observed=w.brief())
            return res
        found = [os.path.join(dp, f) for dp, _, fs in os.walk(tmp) for f in fs]
        if len(found) != 1:
            res.violate("a:write:files", "writer did not produce exactly one file",
                        observed=[f[len(tmp):] for f in found])
            return res
        path = found[0]
        text = _read(path)
        header, cases = tok_ts(text)
        tags = [t for t, _ in header]
        # ---- written text against the caller's panel (independent of the loader)
        ok = True
        if len(cases) != n:
            res.violate("a:text:count", "number of case lines written", expected=n,
                        observed=len(cases))
            ok = False
        for i, (dims, label) in enumerate(cases[:n]):
            toks = dims[0] if len(dims) == 1 else None
            if toks is None or len(toks) != L:
                res.violate("a:text:length", "observations written for instance %d" % i,
                            expected=L, observed=dims)
                ok = False
                break
            bad = [(t, o) for t, o in zip(toks, vals[i])
                   if not abs(float(t) - o) <= 0.5 * ulp(t) * (1 + 1e-9)]
            if bad:
                res.violate("a:text:precision", "printed token is further from the original "
                            "than half a unit of its last digit (instance %d)" % i,
                            expected=[o for _, o in bad], observed=[t for t, _ in bad])
                ok = False
                break
            if yl is not None and label != str(yl[i]):
                res.violate("a:text:label", "class value written for instance %d" % i,
                            expected=yl[i], observed=label)
                ok = False
                break
        if not ok:
            return res
        style = sorted({"sci" if "e" in t.lower() else ("fixed" if "." in t else "int")
                        for dims, _ in cases for t in dims[0]})
        res.outcome("a:text:%s:%s" % (lk, "+".join(style)))
        # ---- loader against the text
        ld = call(load_from_tsfile_to_dataframe, path)
        res.outcome("a:load:%s:%s" % (lk, ld.kind))
        if not ld.ok:
            res.violate("a:load:%s:raises" % lk, "file written by write_dataframe_to_tsfile "
                        "cannot be loaded", expected="panel of %d x %d" % (n, L),
                        observed=dict(error=ld.brief(), header_tags_written=tags))
            if labels is not None or "@class_label false" not in text:
                return res
            # diagnosis only: the same file with the tag the .ts format defines, so that the
            # rest of the unlabelled path (values, counts, frame form) is still judged
            with open(path, "w") as f:
                f.write(text.replace("@class_label false", "@classLabel false"))
            ld = call(load_from_tsfile_to_dataframe, path)
            res.evals += 1
            res.outcome("a:load:nolabel:header-repaired:" + ld.kind)
            if not ld.ok:
                res.violate("a:load:nolabel-repaired:raises", "unlabelled file cannot be "
                            "loaded even with '@classLabel false'", observed=ld.brief())
                return res
        out = ld.value
        if labels is None:
            Xl, y = (out[0] if isinstance(out, tuple) else out), None
        else:
            if not (isinstance(out, tuple) and len(out) == 2):
                res.violate("a:load:form", "labelled file does not load to (X, y)",
                            observed=type(out).__name__)
                return res
            Xl, y = out
        if not compare_panel(res, "a:load", Xl, y, cases, "loaded .ts"):
            return res
        res.nt(("a", n, L, case["fam"], tuple(labels or ()), case["comment"], lo, case.get("pre")))
        # ---- single-frame form
        fr = call(load_from_tsfile_to_dataframe, path, return_separate_X_and_y=False)
        res.evals += 1
        if not fr.ok or not isinstance(fr.value, pd.DataFrame):
            res.violate("a:frame:raises", "return_separate_X_and_y=False fails",
                        observed=fr.brief())
            return res
        F = fr.value
        extra = [c for c in F.columns if c not in list(Xl.columns)]
        if labels is None:
            if extra:
                res.violate("a:frame:columns", "unlabelled single frame has extra columns",
                            observed=list(F.columns))
            else:
                compare_panel(res, "a:frame", F, None, cases, "single-frame form")
        elif len(extra) != 1:
            res.violate("a:frame:columns", "single frame should hold the dimensions plus "
                        "one class column", observed=list(F.columns))
        else:
            compare_panel(res, "a:frame", F[list(Xl.columns)], list(F[extra[0]]), cases,
                          "single-frame form")
    finally:
        shutil.rmtree(tmp, ignore_errors=True)
    return res


# ----------------------------------------------------------------------------- part b
def _part_b(case, res):
    from sktime.utils import data_io

    d, part = case["dataset"], case["part"]
    loaders = dict(ts=(data_io.load_from_tsfile_to_dataframe, lambda t: tok_ts(t)[1]),
                   arff=(data_io.load_from_arff_to_dataframe, tok_arff),
                   tsv=(data_io.load_from_ucr_tsv_to_dataframe, tok_tsv))
    got = {}
    for fmt in case["formats"]:
        path = os.path.join(_datadir(), d, "%s_%s.%s" % (d, part, fmt))
        cases = loaders[fmt][1](_read(path))
        o = call(loaders[fmt][0], path)
        res.outcome("b:%s:%s" % (fmt, o.kind))
        res.evals += 1
        if not o.ok or not (isinstance(o.value, tuple) and len(o.value) == 2):
            res.violate("b:%s:raises" % fmt, "bundled file does not load to (X, y)",
                        observed=o.brief())
            continue
        X, y = o.value
        if compare_panel(res, "b:%s" % fmt, X, y, cases, "%s loader vs its own file" % fmt):
            got[fmt] = (X, y, cases)
    fm = [f for f in case["formats"] if f in got]
    for a in range(len(fm)):
        for b in range(a + 1, len(fm)):
            fa, fb = fm[a], fm[b]
            key = "b:%s-%s" % (fa, fb)
            Xa, ya, ca = got[fa]
            Xb, yb, cb = got[fb]
            ya, yb = list(ya), list(yb)
            if Xa.shape != Xb.shape:
                res.violate(key + ":shape", "panels differ in instances/dimensions",
                            expected=Xa.shape, observed=Xb.shape)
                continue
            bad = None
            for i in range(len(ca)):
                if not lab_eq(ya[i], yb[i]):
                    bad = ("label", i, ya[i], yb[i])
                    break
                for dd in range(Xa.shape[1]):
                    va = np.asarray(Xa.iloc[i, dd].values, dtype=float)
                    vb = np.asarray(Xb.iloc[i, dd].values, dtype=float)
                    if len(va) != len(vb):
                        bad = ("length", i, len(va), len(vb))
                        break
                    tol = np.array([(ulp(p) + ulp(q)) * (1 + 1e-9)
                                    for p, q in zip(ca[i][0][dd], cb[i][0][dd])])
                    if not np.all((np.abs(va - vb) <= tol) | ((va != va) & (vb != vb))):
                        j = int(np.argmax(np.abs(va - vb) - tol))
                        bad = ("value", i, va[j], vb[j])
                        break
                if bad:
                    break
            if bad:
                res.violate("%s:%s" % (key, bad[0]), "formats disagree at instance %d" % bad[1],
                            expected=bad[2], observed=bad[3])
            else:
                res.nt(("b", d, part, fa, fb))
                res.outcome("b:agree:%s-%s" % (fa, fb))
    return res


# ----------------------------------------------------------------------------- part c
def _part_c(case, res):
    import sktime.datasets.base as base

    d, split, rxy = case["dataset"], case["split"], case["return_X_y"]
    ref = {}
    for p in ("TRAIN", "TEST"):
        ref[p] = tok_ts(_read(os.path.join(_datadir(), d, "%s_%s.ts" % (d, p))))[1]
    exp = ref["TRAIN"] + ref["TEST"] if split is None else ref[split.upper()]
    fn = getattr(base, case["loader"])
    for psplit, prxy in case.get("pre", []):
        if case["loader"] == "load_UCR_UEA_dataset":
            call(fn, d, psplit, prxy)
        else:
            call(fn, split=psplit, return_X_y=prxy)
    if case["loader"] == "load_UCR_UEA_dataset":
        o = call(fn, d, split, rxy)
    else:
        o = call(fn, split=split, return_X_y=rxy)
    sk = ("none" if split is None else "split") + (":after-calls" if case.get("pre") else "")
    res.outcome("c:%s:%s:%s" % (sk, "Xy" if rxy else "frame", o.kind))
    key = "c:%s" % sk
    if not o.ok:
        res.violate(key + ":raises", "bundled loader raised", observed=o.brief())
        return res
    out = o.value
    nd = len(exp[0][0])
    if rxy:
        if not (isinstance(out, tuple) and len(out) == 2):
            res.violate("c:form:Xy", "return_X_y=True does not return (X, y)",
                        observed=type(out).__name__)
            return res
        X, y = out
        y = list(np.asarray(y))
        if getattr(X, "shape", (0, 0))[1] != nd:
            res.violate(key + ":columns", "X of the (X, y) form does not have exactly the "
                        "dataset's dimensions as columns", expected=nd,
                        observed=list(getattr(X, "columns", [])))
            return res
    else:
        if not isinstance(out, pd.DataFrame) or out.shape[1] != nd + 1:
            res.violate("c:form:frame", "return_X_y=False should return one frame with the "
                        "dimensions plus one class column", expected=nd + 1,
                        observed=list(getattr(out, "columns", [type(out).__name__])))
            return res
        X, y = out.iloc[:, :nd], list(out.iloc[:, nd])
        key = key + ":frame"
    if len(X) != len(exp):
        res.violate(key + ":count", "number of instances", expected=len(exp), observed=len(X))
        return res
    if split is None:
        # diagnose the order separately: compare against TEST ++ TRAIN on a scratch result
        probe = Result()
        if not compare_panel(probe, "x", X, y, exp, "") and \
                compare_panel(Result(), "x", X, y, ref["TEST"] + ref["TRAIN"], ""):
            res.violate(key + ":order", "split=None returns the test instances before the "
                        "training instances", expected="TRAIN rows then TEST rows",
                        observed="TEST rows then TRAIN rows")
            return res
    if compare_panel(res, key, X, y, exp, "%s(split=%r, return_X_y=%r) vs the files"
                     % (case["loader"], split, rxy)):
        res.nt(("c", case["loader"], d, split, rxy, str(case.get("pre"))))
    return res


_REPORTED = {}


def run_case(case):
    res = Result()
    if case["kind"] == "a":
        _part_a(case, res)
    elif case["kind"] == "b":
        _part_b(case, res)
    else:
        _part_c(case, res)
    # the runner keeps at most 200 violations per worker and one per key: report each key
    # at most 3 times per process so that one frequent defect cannot crowd out another key
    keep = []
    for v in res.violations:
        c = _REPORTED.get(v["key"], 0)
        if c < 3:
            keep.append(v)
            _REPORTED[v["key"]] = c + 1
    res.violations = keep
    return res
