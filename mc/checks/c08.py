"""C08 - tuning selects, exposes and refits the candidate with the best CV score (E1)."""
import numpy as np
import pandas as pd

from ..core import Result, call, close

ID = "C08"
LEVEL = "exploration"
ANCHORS = [
    "sktime/forecasting/model_selection/_tune.py",
    "sktime/forecasting/model_evaluation/_functions.py",
    "sktime/performance_metrics/forecasting/_classes.py",
]
RULE = (
    "full product base forecaster {Naive grid, TransformedTarget pipeline with nested "
    "component__param names, Multiplexer} x grid form {single dict, list of dicts} x search "
    "{grid, randomized n_iter in 1..3 x random_state in 0..2} x splitter (3) x series (3, one "
    "constant => all candidates tie) x scorer {default sMAPE, asymmetric MAPE, a "
    "greater_is_better=True scorer} x refit x strategy {refit, update}. Oracle: independent "
    "evaluate() of a fresh clone per candidate, arg-best set in the declared direction, twin "
    "forecaster built directly from best_params_. non-trivial = >=2 candidates with distinct "
    "mean scores."
)
ASSUMPTIONS = [
    "evaluate itself is judged by C07; here it is the per-candidate reference",
    "ties: any candidate of the arg-best set is accepted",
    "without refit only the *methods* predict/update must raise NotFittedError (cutoff is a property)",
]
BASES = ["naive", "pipe", "mux", "theta"]
SCORERS = ["default", "mape_asym", "neg_mae_gib"]


def gen_cases(tier, seed):
    for base in BASES:
        for gridform in ("dict", "list"):
            for search in ["grid"] + [("rand", k, r) for k in (1, 2, 3) for r in (0, 1, 2)] + [
                    ("rand", 2, "none"), ("rand", 3, "instance")]:
                if tier == "quick" and search != "grid" and gridform == "list":
                    continue
                for cvk in (0, 1, 2):
                    for ser in (0, 1, 2):
                        for sc in SCORERS:
                            for refit in (True, False):
                                for strat in ("refit", "update"):
                                    if tier == "quick" and strat == "update" and \
                                            (search != "grid" or base == "pipe"):
                                        continue
                                    yield dict(base=base, gridform=gridform, search=search,
                                               cv=cvk, series=ser, scorer=sc, refit=refit,
                                               strategy=strat)


def _series(k):
    t = np.arange(14, dtype=float)
    v = [12.0 + 1.5 * t + np.array([2.0, -1.0, 0.5])[t.astype(int) % 3],
         30.0 + ((t * 7) % 5) - 0.25 * t,
         np.full(14, 5.0)][k]
    return pd.Series(v, index=pd.RangeIndex(2, 16))


def _neg_mae(y_true, y_pred):
    return -float(np.mean(np.abs(np.asarray(y_true, float) - np.asarray(y_pred, float))))


def _scorer(name):
    from sktime.performance_metrics.forecasting import (
        MeanAbsolutePercentageError, make_forecasting_scorer)

    if name == "default":
        return None, MeanAbsolutePercentageError(), False
    if name == "mape_asym":
        m = MeanAbsolutePercentageError(symmetric=False)
        return m, m, False
    m = make_forecasting_scorer(_neg_mae, name="neg_mae", greater_is_better=True)
    return m, m, True


def _cv(k):
    from sktime.forecasting.model_selection import (
        ExpandingWindowSplitter, SingleWindowSplitter, SlidingWindowSplitter)

    return [ExpandingWindowSplitter(fh=[1, 2], initial_window=8, step_length=2),
            SlidingWindowSplitter(fh=[1], window_length=7, step_length=3),
            SingleWindowSplitter(fh=[1, 2, 3], window_length=9)][k]


def _base(name, gridform):
    from sktime.forecasting.compose import MultiplexForecaster, TransformedTargetForecaster
    from sktime.forecasting.naive import NaiveForecaster
    from sktime.forecasting.trend import PolynomialTrendForecaster
    from sktime.transformations.series.detrend import Deseasonalizer

    if name == "naive":
        f = NaiveForecaster()
        if gridform == "dict":
            g = {"strategy": ["last", "mean", "drift"], "window_length": [3, 5]}
        else:
            g = [{"strategy": ["mean"], "window_length": [2, 4, 6]}, {"strategy": ["drift"]}]
    elif name == "pipe":
        f = TransformedTargetForecaster([("deseasonalizer", Deseasonalizer(sp=1)),
                                         ("forecaster", NaiveForecaster())])
        if gridform == "dict":
            g = {"forecaster__strategy": ["last", "drift"], "deseasonalizer__sp": [1, 3]}
        else:
            g = [{"forecaster__strategy": ["mean"], "forecaster__window_length": [3, 6]},
                 {"deseasonalizer__sp": [2], "deseasonalizer__model": ["additive",
                                                                        "multiplicative"]}]
    elif name == "theta":
        from sktime.forecasting.theta import ThetaForecaster

        f = ThetaForecaster(sp=1)
        g = {"deseasonalize": [True, False], "sp": [1, 2]} if gridform == "dict" else \
            [{"sp": [2, 3]}, {"deseasonalize": [False]}]
    else:
        f = MultiplexForecaster([("naive", NaiveForecaster("last")),
                                 ("drift", NaiveForecaster("drift")),
                                 ("trend", PolynomialTrendForecaster(degree=1))])
        if gridform == "dict":
            g = {"selected_forecaster": ["naive", "drift", "trend"]}
        else:
            g = [{"selected_forecaster": ["trend"]}, {"selected_forecaster": ["naive"]}]
    return f, g


def run_case(case):
    from sklearn.base import clone
    from sklearn.model_selection import ParameterGrid
    from sktime.exceptions import NotFittedError
    from sktime.forecasting.model_evaluation import evaluate
    from sktime.forecasting.model_selection import (
        ForecastingGridSearchCV, ForecastingRandomizedSearchCV)

    res = Result()
    y = _series(case["series"])
    base, grid = _base(case["base"], case["gridform"])
    sc_arg, metric, gib = _scorer(case["scorer"])
    cv = _cv(case["cv"])
    search = case["search"]
    kw = dict(cv=cv, strategy=case["strategy"], refit=case["refit"], scoring=sc_arg)
    if search == "grid":
        t = ForecastingGridSearchCV(base, param_grid=grid, **kw)
    else:
        rs = {"none": None, "instance": np.random.RandomState(7)}.get(search[2], search[2])
        t = ForecastingRandomizedSearchCV(base, param_distributions=grid, n_iter=search[1],
                                          random_state=rs, **kw)
    fh_fit = [1, 2]
    o = call(lambda: t.fit(y.copy(), fh=fh_fit))
    res.outcome("%s:%s:%s" % (case["base"], "grid" if search == "grid" else "rand", o.kind))
    all_cands = list(ParameterGrid(grid))
    if not o.ok:
        if search != "grid" and search[1] > len(all_cands):
            return res
        res.violate("fit:raises", "search raised on a valid configuration", observed=o.brief())
        return res
    cvr = t.cv_results_
    params = list(cvr["params"])
    # candidates
    if search == "grid":
        if params != all_cands:
            res.violate("candidates:grid", "evaluated candidates != the parameter grid",
                        expected=all_cands, observed=params)
            return res
    else:
        if len(params) != min(search[1], len(all_cands)) or any(p not in all_cands
                                                                for p in params):
            res.violate("candidates:random", "sampled candidates not n_iter members of the grid",
                        expected=dict(n=search[1], grid=all_cands), observed=params)
            return res
        t2 = None
        if isinstance(search[2], int):
            t2 = ForecastingRandomizedSearchCV(base, param_distributions=grid, n_iter=search[1],
                                               random_state=search[2], **kw).fit(y.copy(),
                                                                                 fh=fh_fit)
        if t2 is not None and list(t2.cv_results_["params"]) != params:
            res.violate("candidates:reproducible", "same random_state gives other candidates",
                        expected=params, observed=list(t2.cv_results_["params"]))
    score_cols = [c for c in cvr.columns if c.startswith("mean_test_")]
    if len(score_cols) != 1:
        res.violate("cv_results:columns", "expected one mean_test_<metric> column",
                    observed=list(cvr.columns))
        return res
    sc = score_cols[0]
    # independent evaluate per candidate
    exp = []
    for p in params:
        f = clone(base).set_params(**p)
        tab = evaluate(f, cv, y.copy(), strategy=case["strategy"], scoring=sc_arg)
        col = [c for c in tab.columns if c.startswith("test_")][0]
        exp.append(float(tab[col].mean()))
    got = [float(v) for v in cvr[sc]]
    if not close(got, exp, rtol=1e-9):
        res.violate("cv_results:scores", "cv_results_ row differs from an independent evaluate "
                    "of that candidate", expected=exp, observed=got)
        return res
    if len(set(round(e, 12) for e in exp)) >= 2:
        res.nt(tuple(sorted((k, str(v)) for k, v in case.items())))
    best = max(exp) if gib else min(exp)
    argbest = [i for i, e in enumerate(exp) if close(e, best, rtol=1e-12)]
    bi = int(t.best_index_)
    if bi not in argbest:
        res.violate("best:index:" + ("gib" if gib else "loss"), "best_index_ is not a candidate "
                    "with the best mean CV score in the declared direction",
                    expected=dict(argbest=argbest, scores=exp, greater_is_better=gib),
                    observed=bi)
        return res
    if not close(float(t.best_score_), best, rtol=1e-9):
        res.violate("best:score", "best_score_ is not the optimum", expected=best,
                    observed=float(t.best_score_))
    if t.best_params_ != params[bi]:
        res.violate("best:params", "best_params_ != params of best_index_", expected=params[bi],
                    observed=t.best_params_)
        return res
    # refit behaviour
    y_new = pd.Series([3.0, 4.5], index=pd.RangeIndex(16, 18))
    if case["refit"]:
        twin = clone(base).set_params(**t.best_params_).fit(y.copy(), fh=fh_fit)
        for fh in (None, [1, 3]):
            a, b = call(lambda: t.predict(fh)), call(lambda: twin.predict(fh))
            if not a.ok or not b.ok or list(a.value.index) != list(b.value.index) or \
                    not close(a.value.values, b.value.values, rtol=1e-9):
                res.violate("refit:predict", "tuner.predict differs from a forecaster built "
                            "directly with best_params_ on the whole series",
                            expected=b.value if b.ok else b.brief(),
                            observed=a.value if a.ok else a.brief())
                return res
        if case["base"] == "theta":
            # prediction intervals at a non-default level go through the tuner unchanged
            a = call(lambda: t.predict([1, 2], return_pred_int=True, alpha=0.2))
            b = call(lambda: twin.predict([1, 2], return_pred_int=True, alpha=0.2))
            if a.ok != b.ok or (a.ok and not close(np.asarray(a.value[1]).astype(float),
                                                   np.asarray(b.value[1]).astype(float), rtol=1e-9)):
                res.violate("refit:pred_int", "prediction intervals of the tuner differ from "
                            "those of the forecaster built with best_params_",
                            expected=b.value[1] if b.ok else b.brief(),
                            observed=a.value[1] if a.ok else a.brief())
                return res
        if t.cutoff != twin.cutoff or t.cutoff != y.index[-1]:
            res.violate("refit:cutoff", "tuner cutoff differs", expected=twin.cutoff,
                        observed=t.cutoff)
        a = call(lambda: t.update(y_new.copy(), update_params=False).predict([1, 2]))
        b = call(lambda: twin.update(y_new.copy(), update_params=False).predict([1, 2]))
        if a.ok != b.ok or (a.ok and (list(a.value.index) != list(b.value.index) or
                                      not close(a.value.values, b.value.values, rtol=1e-9))):
            res.violate("refit:update", "tuner.update->predict differs from the twin",
                        expected=b.value if b.ok else b.brief(),
                        observed=a.value if a.ok else a.brief())
        elif a.ok and t.cutoff != y_new.index[-1]:
            res.violate("refit:update:cutoff", "cutoff after update", expected=y_new.index[-1],
                        observed=t.cutoff)
    else:
        for name, fn in (("predict", lambda: t.predict([1])),
                         ("update", lambda: t.update(y_new.copy()))):
            a = call(fn)
            if not a.is_a(NotFittedError):
                res.violate("norefit:" + name, name + " without refit must raise NotFittedError",
                            observed=a.brief())
    return res
